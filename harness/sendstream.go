package main

import (
	"fmt"
	"strings"
	"time"

	"github.com/spali/go-rscp/rscp"
)

// stream send (C05): request lists through the real Client.SendMultiple; what reaches the wire is decrypted by
// the independent peer cipher and compared byte for byte with the model's plaintext, and parsed by the
// independent frame parser.

func sendRun(reqs []rscp.Message, crc bool, now time.Time) (impl string, prop string) {
	key := "sendkey"
	cl, err := rscp.NewClient(rscp.ClientConfig{Address: "a", Username: "u", Password: "p", Key: key, UseChecksum: crc})
	if err != nil {
		return "newclient-error", ""
	}
	pc := newPeerCipher(key)
	authReply := frameBytes(itemBytes(uint32(rscp.RSCP_AUTHENTICATION), 3, []byte{10}), true, 1, 2)
	reply := frameBytes(itemBytes(uint32(rscp.INFO_SERIAL_NUMBER), 13, []byte("x")), true, 1, 2)
	sc := &scriptConn{}
	sc.onWrite = func(k int, b []byte) [][]byte {
		pl := authReply
		if k > 0 {
			pl = reply
		}
		ct := make([]byte, len(pl))
		pc.enc.CryptBlocks(ct, pl)
		return [][]byte{ct}
	}
	cl.VerifAttachConn(sc)
	rscp.Now = func() time.Time { return now }
	defer func() { rscp.Now = time.Now }()
	wantBefore := msgsString(reqs)
	about("send - - - " + wantBefore)
	res := func() (s string) {
		defer func() {
			if r := recover(); r != nil {
				s = "panic"
			}
		}()
		_, err := cl.SendMultiple(reqs)
		if err != nil {
			return "err " + clientErrClass(err)
		}
		return "ok"
	}()
	prop = "pass"
	if after := msgsString(reqs); after != wantBefore {
		return res, "FAIL * SendMultiple modified the caller's requests: " + trunc(after, 120)
	}
	// decrypt everything the client wrote
	var plains [][]byte
	for _, w := range sc.writes {
		if len(w)%32 != 0 {
			prop = "FAIL C05 a write is not block aligned"
			plains = append(plains, nil)
			continue
		}
		pl := make([]byte, len(w))
		pc.dec.CryptBlocks(pl, w)
		plains = append(plains, pl)
	}
	switch {
	case res == "panic":
		return "panic", "FAIL C05 Client.SendMultiple panics"
	case strings.HasPrefix(res, "err "):
		if len(sc.writes) > 1 {
			prop = "FAIL C05 request refused (" + res + ") but a part of it was transmitted"
		}
		return res, prop
	}
	if len(sc.writes) != 2 {
		return fmt.Sprintf("ok writes=%d", len(sc.writes)), "FAIL C05 not exactly one frame for the request"
	}
	text, sec, nsec, hasCrc, perr := peerParseFrame(plains[1])
	want := wantBefore
	switch {
	case perr != "":
		prop = "FAIL C05 the transmitted frame is not well-formed for an independent parser: " + perr
	case text != want:
		prop = "FAIL C05 the transmitted frame decodes to different requests: " + trunc(text, 100)
	case sec != now.Unix() || int64(nsec) != int64(now.Nanosecond()):
		prop = "FAIL C05 the frame does not carry the current time"
	case hasCrc != crc:
		prop = "FAIL C05 checksum flag does not follow the configuration"
	}
	return "ok " + hexOf(plains[1]), prop
}

func sendCase(cw *caseWriter, reqs []rscp.Message, crc bool, now time.Time, label string) {
	impl, prop := sendRun(reqs, crc, now)
	c := "0"
	if crc {
		c = "1"
	}
	cw.add(fmt.Sprintf("send %s %d %d %s", c, now.Unix(), now.Nanosecond(), msgsString(reqs)), impl, "N send "+label, prop)
}

func init() {
	streams["send"] = func(g *gen, cw *caseWriter, n int, thorough bool) {
		for i := 0; i < n; i++ {
			ms := g.requestList()
			label := "valid " + treeLabel(ms)
			switch g.pick(5) {
			case 0:
				l, _ := g.corrupt(ms)
				label = l
			case 1:
				ms[g.pick(len(ms))].Tag = g.respTags[g.pick(len(g.respTags))]
				label = "response-tag"
			}
			sendCase(cw, ms, g.chance(0.5), g.time(), label)
		}
		// every type code with a value-less message, top level and nested
		for c := 0; c < 256; c++ {
			if !thorough && c > 0x14 && c < 0xfc && c%16 != 0 {
				continue
			}
			m := rscp.Message{Tag: rscp.INFO_REQ_UTC_TIME, DataType: rscp.DataType(c)}
			sendCase(cw, []rscp.Message{m}, true, g.time(), fmt.Sprintf("type-code=%d nil-value", c))
			sendCase(cw, []rscp.Message{{Tag: rscp.BAT_REQ_DATA, DataType: rscp.Container, Value: []rscp.Message{m}}}, false, g.time(), fmt.Sprintf("type-code=%d nil-value nested", c))
		}
		// values of defined (named) Go types under the data type of their underlying type; an item declared value-less
		// that carries the value its tag's table type would take
		for k, v := range namedValues {
			for _, dt := range []rscp.DataType{rscp.CString, rscp.ByteArray, rscp.Container, rscp.Bool, rscp.UChar8, rscp.Int32, rscp.None} {
				m := rscp.Message{Tag: rscp.INFO_REQ_UTC_TIME, DataType: dt, Value: v}
				sendCase(cw, []rscp.Message{m}, k%2 == 0, g.time(), fmt.Sprintf("named-type=%d dt=%d", k, dt))
				sendCase(cw, []rscp.Message{{Tag: rscp.BAT_REQ_DATA, DataType: rscp.Container, Value: []rscp.Message{m}}}, k%2 == 1, g.time(), fmt.Sprintf("named-type=%d dt=%d nested", k, dt))
			}
		}
		for _, dt := range definedTypes {
			rq := g.reqByType[dt]
			if len(rq) == 0 || dt == rscp.None {
				continue
			}
			for j := 0; j < 2; j++ {
				b := 100
				m := rscp.Message{Tag: rq[g.pick(len(rq))], DataType: rscp.None, Value: g.value(dt, 1, &b)}
				sendCase(cw, []rscp.Message{m}, j == 0, g.time(), fmt.Sprintf("none-with-tag-typed-value dt=%d", dt))
				sendCase(cw, []rscp.Message{{Tag: rscp.BAT_REQ_DATA, DataType: rscp.Container, Value: []rscp.Message{m}}}, j == 1, g.time(), fmt.Sprintf("none-with-tag-typed-value dt=%d nested", dt))
			}
		}
		// request lists that are windows of a larger slice of the caller (spare capacity holding live data), top level and as
		// container values: the caller's data stay as they are and the frame carries exactly the window
		{
			all := make([]rscp.Message, 0, 8)
			for k := 0; k < 8; k++ {
				all = append(all, rscp.Message{Tag: rscp.Tag(0x01000010 + k), DataType: rscp.CString, Value: fmt.Sprintf("param-%d", k)})
			}
			snapshot := msgsString(all)
			inner := all[0:2:8]
			lists := [][]rscp.Message{all[0:2], all[2:4], all[4:5],
				{{Tag: rscp.BAT_REQ_DATA, DataType: rscp.Container, Value: inner}, {Tag: rscp.WB_REQ_DATA, DataType: rscp.Container, Value: all[2:4]}}}
			// two containers whose child lists start at the same element of one array and differ in length, both orders
			kids := make([]rscp.Message, 0, 48)
			for k := 0; k < 41; k++ {
				kids = append(kids, rscp.Message{Tag: rscp.Tag(0x01000100 + k), DataType: rscp.CString, Value: strings.Repeat("k", 1600)})
			}
			sendCase(cw, []rscp.Message{{Tag: rscp.BAT_REQ_DATA, DataType: rscp.Container, Value: kids[:1]}, {Tag: rscp.WB_REQ_DATA, DataType: rscp.Container, Value: kids[:41]}}, true, g.time(), "containers-sharing-an-array short-first (does not fit)")
			sendCase(cw, []rscp.Message{{Tag: rscp.BAT_REQ_DATA, DataType: rscp.Container, Value: kids[:39]}, {Tag: rscp.WB_REQ_DATA, DataType: rscp.Container, Value: kids[:1]}}, false, g.time(), "containers-sharing-an-array long-first (fits)")
			sendCase(cw, []rscp.Message{{Tag: rscp.BAT_REQ_DATA, DataType: rscp.Container, Value: kids[:2]}, {Tag: rscp.WB_REQ_DATA, DataType: rscp.Container, Value: kids[:3]}}, true, g.time(), "containers-sharing-an-array small")
			// windows that contain a container themselves (the rest of the backing array holds further requests)
			mixed := make([]rscp.Message, 0, 8)
			mixed = append(mixed, rscp.Message{Tag: rscp.BAT_REQ_DATA, DataType: rscp.Container, Value: []rscp.Message{{Tag: rscp.BAT_INDEX, DataType: rscp.UInt16, Value: uint16(1)}, {Tag: rscp.BAT_REQ_RSOC, DataType: rscp.None}}})
			for k := 1; k < 6; k++ {
				mixed = append(mixed, rscp.Message{Tag: rscp.Tag(0x01000020 + k), DataType: rscp.CString, Value: fmt.Sprintf("other-%d", k)})
			}
			mixedSnapshot := msgsString(mixed)
			for k, reqs := range [][]rscp.Message{mixed[0:1], mixed[0:2], mixed[1:3]} {
				sendCase(cw, reqs, k%2 == 0, g.time(), fmt.Sprintf("window-with-container %d", k))
				if now := msgsString(mixed[:6]); now != mixedSnapshot {
					cw.add("skip", "skip", "N send window-with-container", "FAIL * sending a window of a slice changed the caller's data outside the window: "+trunc(now, 200))
					break
				}
			}
			for k, reqs := range lists {
				sendCase(cw, reqs, k%2 == 0, g.time(), fmt.Sprintf("window-of-a-larger-slice %d", k))
				if now := msgsString(all[:8]); now != snapshot {
					cw.add("skip", "skip", "N send window-of-a-larger-slice", "FAIL * sending a window of a slice changed the caller's data outside (or inside) the window: "+trunc(now, 160))
					break
				}
			}
		}
		// a clock that moves on with every reading (600 ms per call): the time in the frame header is one of the readings
		{
			cl, err := rscp.NewClient(rscp.ClientConfig{Address: "a", Username: "u", Password: "p", Key: "sendkey"})
			if err == nil {
				pc := newPeerCipher("sendkey")
				sc := &scriptConn{}
				sc.onWrite = func(k int, b []byte) [][]byte {
					pl := frameBytes(itemBytes(uint32(rscp.RSCP_AUTHENTICATION), 3, []byte{10}), true, 1, 2)
					if k > 0 {
						pl = frameBytes(itemBytes(uint32(rscp.INFO_SERIAL_NUMBER), 13, []byte("x")), true, 1, 2)
					}
					ct := make([]byte, len(pl))
					pc.enc.CryptBlocks(ct, pl)
					return [][]byte{ct}
				}
				cl.VerifAttachConn(sc)
				var readings []time.Time
				t := time.Unix(1700000000, 700000000).UTC()
				rscp.Now = func() time.Time { t = t.Add(600 * time.Millisecond); readings = append(readings, t); return t }
				_, _ = cl.SendMultiple(g.nonceRequest(0))
				_, _ = cl.SendMultiple(g.nonceRequest(1))
				rscp.Now = time.Now
				prop := "pass"
				for k, w := range sc.writes {
					if len(w)%32 != 0 || len(w) < 32 {
						continue
					}
					pl := make([]byte, len(w))
					pc.dec.CryptBlocks(pl, w)
					_, sec, nsec, _, perr := peerParseFrame(pl)
					if perr != "" {
						continue
					}
					found := false
					for _, r := range readings {
						if r.Unix() == sec && int32(r.Nanosecond()) == nsec {
							found = true
						}
					}
					if !found {
						prop = fmt.Sprintf("FAIL C05 the time in the header of frame %d (%d s, %d ns) is none of the clock readings taken while it was written", k, sec, nsec)
					}
				}
				cw.add("skip", "skip", "N send stepping-clock", prop)
			}
		}
		// credentials too long for the authentication request (one of them beyond a string's limit, or both together beyond
		// the frame): the call is refused and nothing at all is written
		for _, up := range [][2]int{{4, 65529}, {65529, 4}, {4, 70000}, {40000, 40000}, {32760, 32760}, {4, 131081}, {8, 65500}} {
			cl, err := rscp.NewClient(rscp.ClientConfig{Address: "a", Username: strings.Repeat("u", up[0]), Password: strings.Repeat("p", up[1]), Key: "sendkey"})
			if err != nil {
				cw.add("skip", "skip", fmt.Sprintf("N send long-credentials user=%d password=%d newclient-error", up[0], up[1]), "pass")
				continue
			}
			sc := &scriptConn{}
			sc.onWrite = func(k int, b []byte) [][]byte { return nil }
			cl.VerifAttachConn(sc)
			res := func() (s string) {
				defer func() {
					if r := recover(); r != nil {
						s = "panic"
					}
				}()
				_, err := cl.SendMultiple(g.nonceRequest(0))
				if err != nil {
					return "err " + clientErrClass(err)
				}
				return "ok"
			}()
			fits := 7+7+up[0]+7+up[1] <= 65535 && up[0] <= 65528 && up[1] <= 65528
			prop := "pass"
			switch {
			case res == "panic":
				prop = "FAIL C05 the client panics with long credentials"
			case !fits && len(sc.writes) > 0:
				prop = fmt.Sprintf("FAIL C05 credentials that do not fit an authentication request (user %d, password %d bytes): %d bytes were written all the same, result %s ;; FAIL C09 the first frame does not carry the configured credentials", up[0], up[1], len(sc.writes[0]), res)
			case !fits && res == "ok":
				prop = "FAIL C05 a call with credentials that cannot be transmitted succeeds"
			}
			cw.add("skip", "skip", fmt.Sprintf("N send long-credentials user=%d password=%d fits=%v result=%s", up[0], up[1], fits, res), prop)
		}
		// several calls on one connection, some of them refused by validation (a wrong value; items that fit one by one but
		// not together; a response tag): every frame that reaches the wire decrypts, in the peer's chain, to a well-formed
		// frame with the requests of an accepted call — a refused call leaves the cipher state alone
		for rep := 0; rep < 6; rep++ {
			cl, err := rscp.NewClient(rscp.ClientConfig{Address: "a", Username: "u", Password: "p", Key: "sendkey"})
			if err != nil {
				continue
			}
			pc := newPeerCipher("sendkey")
			sc := &scriptConn{}
			sc.onWrite = func(k int, b []byte) [][]byte {
				pl := frameBytes(itemBytes(uint32(rscp.RSCP_AUTHENTICATION), 3, []byte{10}), true, 1, 2)
				if k > 0 {
					pl = frameBytes(itemBytes(uint32(rscp.INFO_SERIAL_NUMBER), 13, []byte("x")), true, 1, 2)
				}
				ct := make([]byte, len(pl))
				pc.enc.CryptBlocks(ct, pl)
				return [][]byte{ct}
			}
			cl.VerifAttachConn(sc)
			big := strings.Repeat("a", 40000)
			calls := [][]rscp.Message{g.nonceRequest(0),
				{{Tag: 0x01000001, DataType: rscp.CString, Value: big}, {Tag: 0x01000002, DataType: rscp.CString, Value: big}},
				g.nonceRequest(2),
				{{Tag: rscp.INFO_REQ_UTC_TIME, DataType: rscp.UChar8, Value: "wrong"}},
				{{Tag: rscp.EMS_POWER_PV, DataType: rscp.None}},
				g.nonceRequest(5)}
			if rep%2 == 1 {
				calls[1], calls[3] = calls[3], calls[1]
			}
			var res, accepted []string
			for _, reqs := range calls {
				_, err := cl.SendMultiple(reqs)
				if err != nil {
					res = append(res, "err "+clientErrClass(err))
				} else {
					res = append(res, "ok")
					accepted = append(accepted, msgsString(reqs))
				}
			}
			prop := "pass"
			var seen []string
			for k, w := range sc.writes {
				if len(w)%32 != 0 {
					prop = "FAIL C05 a write is not block aligned"
					break
				}
				pl := make([]byte, len(w))
				pc.dec.CryptBlocks(pl, w)
				text, _, _, _, perr := peerParseFrame(pl)
				if perr != "" {
					prop = fmt.Sprintf("FAIL C05 frame %d on the connection cannot be decoded by the peer (%s) after results %s ;; FAIL C06 the client's cipher state is out of step with the peer's", k, perr, strings.Join(res, ","))
					break
				}
				if k > 0 {
					seen = append(seen, text)
				}
			}
			if prop == "pass" && strings.Join(seen, " | ") != strings.Join(accepted, " | ") {
				prop = "FAIL C05 the frames on the wire are not the accepted requests: " + trunc(strings.Join(seen, " | "), 150)
			}
			cw.add("skip", "skip", "N send refused-then-valid results="+strings.Join(res, ","), prop)
		}
		// a write that times out after 0 bytes (full socket buffer), on the authentication frame or on the request frame,
		// then two more calls: whatever the client does, nothing may be written on that connection after the failed
		// write (its cipher state has moved on, the peer's has not)
		for _, at := range []int{1, 2} {
			for rep, partial := range []int{0, 1, 32, 100, 4096} {
				cl, err := rscp.NewClient(rscp.ClientConfig{Address: "a", Username: "u", Password: "p", Key: "sendkey"})
				if err != nil {
					continue
				}
				pc := newPeerCipher("sendkey")
				sc := &scriptConn{timeoutAt: at - 1 + 1, timeoutBytes: partial}
				_ = rep
				sc.onWrite = func(k int, b []byte) [][]byte {
					pl := frameBytes(itemBytes(uint32(rscp.RSCP_AUTHENTICATION), 3, []byte{10}), true, 1, 2)
					if k > 0 {
						pl = frameBytes(itemBytes(uint32(rscp.INFO_SERIAL_NUMBER), 13, []byte("x")), true, 1, 2)
					}
					ct := make([]byte, len(pl))
					pc.enc.CryptBlocks(ct, pl)
					return [][]byte{ct}
				}
				cl.VerifAttachConn(sc)
				var res []string
				for k := 0; k < 3; k++ {
					func() {
						defer func() {
							if r := recover(); r != nil {
								res = append(res, "panic")
							}
						}()
						rq := g.nonceRequest(k)
						rq = append(rq, rscp.Message{Tag: rscp.WB_REQ_DATA, DataType: rscp.Container, Value: []rscp.Message{{Tag: rscp.WB_EXTERN_DATA, DataType: rscp.ByteArray, Value: make([]byte, 9000)}}})
						_, err := cl.SendMultiple(rq)
						if err != nil {
							res = append(res, "err "+clientErrClass(err))
						} else {
							res = append(res, "ok")
						}
					}()
				}
				prop := "pass"
				if len(sc.afterFault) > 0 {
					prop = fmt.Sprintf("FAIL C05 after a write that timed out the client goes on writing on the same connection (%d more frames): its frames can no longer be decrypted by the peer ;; FAIL C08 a failed write leaves the client connected", len(sc.afterFault))
				}
				for _, r := range res {
					if r == "panic" {
						prop = "FAIL * client panics after a write time-out"
					}
				}
				cw.add("skip", "skip", fmt.Sprintf("N send write-timeout at=%d partial=%d results=%s", at, partial, strings.Join(res, ",")), prop)
			}
		}
		vs := []int{65527, 65528, 65529, 65535, 65536, 65541, 131072, 131079}
		ts := []int{65534, 65535, 65536, 65537, 65538, 65539, 65540, 65550, 80000, 131072, 131086}
		if thorough {
			vs = nil
			for v := 65520; v <= 65545; v++ {
				vs = append(vs, v)
			}
			vs = append(vs, 131072, 131073, 131079, 131080)
			ts = nil
			for t := 65520; t <= 65560; t++ {
				ts = append(ts, t)
			}
			ts = append(ts, 80000, 131072, 131073, 131080, 131100)
		}
		now := time.Unix(1700000000, 123456789).UTC()
		for _, crc := range []bool{true, false} {
			for _, v := range vs {
				s := strings.Repeat("a", v)
				sendCase(cw, []rscp.Message{{Tag: 0x01000001, DataType: rscp.CString, Value: s}}, crc, now, fmt.Sprintf("value-size=%d", v))
				sendCase(cw, []rscp.Message{{Tag: rscp.BAT_REQ_DATA, DataType: rscp.Container, Value: []rscp.Message{{Tag: 1, DataType: rscp.ByteArray, Value: []byte(s)}}}}, crc, now, fmt.Sprintf("value-size=%d nested", v))
			}
			// a single container whose items each fit but do not fit together
			for _, inner := range []int{40000, 32760, 32761} {
				ms := []rscp.Message{{Tag: rscp.BAT_REQ_DATA, DataType: rscp.Container, Value: []rscp.Message{
					{Tag: 1, DataType: rscp.CString, Value: strings.Repeat("a", inner)}, {Tag: 2, DataType: rscp.CString, Value: strings.Repeat("b", inner)}}}}
				sendCase(cw, ms, crc, now, fmt.Sprintf("single-container items=2x%d", inner))
			}
			for _, t := range ts {
				a := (t - 14) / 2
				b := t - 14 - a
				ms := []rscp.Message{{Tag: 1, DataType: rscp.CString, Value: strings.Repeat("a", a)}, {Tag: 2, DataType: rscp.CString, Value: strings.Repeat("b", b)}}
				sendCase(cw, ms, crc, now, fmt.Sprintf("total-size=%d", t))
			}
		}
	}
}
