package main

import (
	"crypto/cipher"
	"encoding/binary"
	"errors"
	"fmt"
	"github.com/sirupsen/logrus"
	"hash/crc32"
	"io"
	"reflect"
	"runtime"
	"strings"
	"sync"
	"time"

	"github.com/azihsoyn/rijndael256"
	"github.com/spali/go-rscp/rscp"
)

// ---- cipher helpers ------------------------------------------------------------------------

// identityMode is a cipher.BlockMode that leaves the data alone: lets the harness feed plaintext to rscp.Read
type identityMode struct{}

func (identityMode) BlockSize() int { return 32 }
func (identityMode) CryptBlocks(dst, src []byte) {
	if len(src)%32 != 0 {
		panic("identityMode: input not full blocks")
	}
	copy(dst, src)
}

// recorder wraps a BlockMode and keeps the plaintext it was asked to encrypt
type recorder struct {
	cipher.BlockMode
	plain [][]byte
}

func (r *recorder) CryptBlocks(dst, src []byte) {
	r.plain = append(r.plain, append([]byte{}, src...))
	r.BlockMode.CryptBlocks(dst, src)
}

func cbcPair(key string) (cipher.BlockMode, cipher.BlockMode) {
	k := make([]byte, 32)
	for i := range k {
		k[i] = 0xff
	}
	copy(k, key)
	iv := make([]byte, 32)
	for i := range iv {
		iv[i] = 0xff
	}
	cb, _ := rijndael256.NewCipher(k)
	return cipher.NewCBCEncrypter(cb, iv), cipher.NewCBCDecrypter(cb, iv)
}

// readAll feeds data to rscp.Read in the given chunks on a fresh state; recovers panics
func readChunks(mode cipher.BlockMode, chunks [][]byte) (res []string) {
	var buf []byte
	var crcFlag bool
	var frameSize uint32
	var dataSize uint16
	for _, c := range chunks {
		res = append(res, func() (s string) {
			defer func() {
				if r := recover(); r != nil {
					s = "panic"
				}
			}()
			done := make(chan string, 1)
			go func() {
				defer func() {
					if r := recover(); r != nil {
						done <- "panic"
					}
				}()
				// the caller's receive buffer: larger than the piece, reused (overwritten) after the call returns
				backing := make([]byte, len(c)+64)
				copy(backing, c)
				for i := len(c); i < len(backing); i++ {
					backing[i] = 0x5a
				}
				ms, err := rscp.Read(&mode, &buf, &crcFlag, &frameSize, &dataSize, backing[:len(c)])
				r := resMsgs(ms, err)
				for i := len(c); i < len(backing); i++ {
					if backing[i] != 0x5a {
						r = "overwrote-caller-memory"
					}
				}
				for i := range backing {
					backing[i] = 0xa5
				}
				if r != resMsgs(ms, err) && r != "overwrote-caller-memory" {
					r = "result-shares-the-callers-buffer"
				}
				retain(ms, r)
				done <- r
			}()
			select {
			case s = <-done:
			case <-time.After(20 * time.Second):
				s = "hang"
			}
			return s
		}())
	}
	return res
}

// decoded results are kept for a while and looked at again later: what a call returned must not change when the
// decoder is used again (no sharing of buffers between results)
type retained struct {
	ms  []rscp.Message
	str string
}

var retainMu sync.Mutex
var retainedRes []retained

func retain(ms []rscp.Message, str string) {
	if len(ms) == 0 {
		return
	}
	retainMu.Lock()
	defer retainMu.Unlock()
	if len(retainedRes) >= 32 {
		retainedRes = retainedRes[1:]
	}
	retainedRes = append(retainedRes, retained{ms, str})
}

// retainedChanged re-renders the kept results; "" = all still what they were
func retainedChanged() string {
	retainMu.Lock()
	defer retainMu.Unlock()
	for _, r := range retainedRes {
		if now := "ok " + msgsString(r.ms); now != r.str {
			retainedRes = nil
			return "a decoded result changed after later calls: was " + trunc(r.str, 80) + " now " + trunc(now, 80)
		}
	}
	return ""
}

// readChunksSeq feeds the chunks of a stream of frames to the decoder the way successive calls of Client.receive do:
// one cipher state for the stream, fresh frame state after every returned frame or error
func readChunksSeq(mode cipher.BlockMode, chunks [][]byte, keepVars bool) (res []string) {
	var buf []byte
	var crcFlag bool
	var frameSize uint32
	var dataSize uint16
	for _, c := range chunks {
		res = append(res, func() (s string) {
			defer func() {
				if r := recover(); r != nil {
					s = "panic"
				}
			}()
			ms, err := rscp.Read(&mode, &buf, &crcFlag, &frameSize, &dataSize, append([]byte{}, c...))
			if (err != nil && !errors.Is(err, rscp.ErrRscpInvalidFrameLength)) || ms != nil {
				// the call of receive() ends here; the next one starts with fresh frame state and the same cipher state
				if keepVars {
					buf = buf[:0]
				} else {
					buf, crcFlag, frameSize, dataSize = nil, false, 0, 0
				}
			}
			return resMsgs(ms, err)
		}())
	}
	return res
}

// readChunksAbandon is readChunks in which a nil chunk stands for "the caller gives the frame in progress up": it
// empties its buffer and goes on with the same variables
func readChunksAbandon(mode cipher.BlockMode, chunks [][]byte) (res []string) {
	var buf []byte
	var crcFlag bool
	var frameSize uint32
	var dataSize uint16
	for _, c := range chunks {
		if c == nil {
			buf = buf[:0]
			continue
		}
		res = append(res, func() (s string) {
			defer func() {
				if r := recover(); r != nil {
					s = "panic"
				}
			}()
			ms, err := rscp.Read(&mode, &buf, &crcFlag, &frameSize, &dataSize, append([]byte{}, c...))
			return resMsgs(ms, err)
		}())
	}
	return res
}

func readOnce(mode cipher.BlockMode, data []byte) string {
	return readChunks(mode, [][]byte{data})[0]
}

func padBlocks(d []byte) []byte {
	if len(d)%32 != 0 {
		d = append(append([]byte{}, d...), make([]byte, 32-len(d)%32)...)
	}
	return d
}

// ---- stream rt: encode then decode (C01) ---------------------------------------------------

func treeLabel(ms []rscp.Message) string {
	depth, items, types := 0, 0, map[rscp.DataType]bool{}
	var walk func(ms []rscp.Message, d int)
	walk = func(ms []rscp.Message, d int) {
		if d > depth {
			depth = d
		}
		for _, m := range ms {
			items++
			types[m.DataType] = true
			if c, ok := m.Value.([]rscp.Message); ok {
				walk(c, d+1)
			}
		}
	}
	walk(ms, 1)
	return fmt.Sprintf("items=%d depth=%d types=%d size=%d", items, depth, len(types), msgsSizeWide(ms))
}

func nontrivialTree(ms []rscp.Message) bool {
	for _, m := range ms {
		switch m.Value.(type) {
		case []rscp.Message, string, []byte:
			return true
		}
	}
	return len(ms) > 1
}

func deepEqualMsgs(a, b []rscp.Message) bool {
	return msgsString(a) == msgsString(b) && reflect.DeepEqual(len(a), len(b))
}

// rtCrcPattern: checksum setting per frame of the streams written next (nil = one setting for the whole stream)
var rtCrcPattern []bool

func rtCase(cw *caseWriter, ms [][]rscp.Message, crc bool, key string, now time.Time, label string) {
	enc, dec := cbcPair(key)
	rec := &recorder{BlockMode: enc}
	var recMode cipher.BlockMode = rec
	rscp.Now = func() time.Time { return now }
	defer func() { rscp.Now = time.Now }()
	c := "0"
	if crc {
		c = "1"
	}
	var streamCT []byte     // the ciphertext of all frames of the stream, in order
	var streamWant []string // what each frame has to decode to
	streamHasEmpty := false
	defer func() {
		if len(streamWant) < 2 || streamHasEmpty {
			return // a frame without items is "nothing yet" for the receive loop: what follows it belongs to the same call
		}
		// the whole stream through ONE decoder state, cipher block by cipher block (how the client reads by default):
		// every frame comes out, in order, and nothing else
		_, dec2 := cbcPair(key)
		var chunks [][]byte
		for i := 0; i+32 <= len(streamCT); i += 32 {
			chunks = append(chunks, streamCT[i:i+32])
		}
		var got []string
		for _, r := range readChunksSeq(dec2, chunks, false) {
			if r != "err invalidFrameLength" && r != "ok [ ]" {
				got = append(got, r)
			}
		}
		// a caller that keeps its variables and only empties the buffer (buf = buf[:0]) between frames gets the same
		_, dec3 := cbcPair(key)
		var got3 []string
		for _, r := range readChunksSeq(dec3, chunks, true) {
			if r != "err invalidFrameLength" && r != "ok [ ]" {
				got3 = append(got3, r)
			}
		}
		if strings.Join(got, " | ") == strings.Join(streamWant, " | ") {
			got = got3
		}
		prop := "pass"
		if strings.Join(got, " | ") != strings.Join(streamWant, " | ") {
			prop = "FAIL C01 a stream of " + fmt.Sprint(len(streamWant)) + " frames read block by block on one decoder gives " + fmt.Sprint(len(got)) + " results: " + trunc(strings.Join(got, " | "), 200)
			for i := range got {
				if i >= len(streamWant) || got[i] != streamWant[i] {
					w := "-"
					if i < len(streamWant) {
						w = streamWant[i]
					}
					prop += fmt.Sprintf(" ;first difference at %d: got %s want %s", i, trunc(got[i], 300), trunc(w, 300))
					break
				}
			}
		}
		cw.add("skip", "skip", "N rt stream-blockwise frames="+fmt.Sprint(len(streamWant)), prop)
	}()
	for i, frame := range ms {
		if rtCrcPattern != nil {
			crc = rtCrcPattern[i%len(rtCrcPattern)]
			c = "0"
			if crc {
				c = "1"
			}
		}
		lbl := fmt.Sprintf("%s rt frame=%d/%d crc=%s %s %s", nt(nontrivialTree(frame)), i+1, len(ms), c, treeLabel(frame), label)
		var ct []byte
		var err error
		var impl string
		before := msgsString(frame)
		func() {
			defer func() {
				if r := recover(); r != nil {
					impl = "panic"
				}
			}()
			ct, err = rscp.Write(&recMode, frame, crc)
			if err != nil {
				impl = "err " + errClass(err)
			} else {
				impl = "ok " + hexOf(rec.plain[len(rec.plain)-1])
			}
		}()
		op := fmt.Sprintf("enc %s %d %d %s", c, now.Unix(), now.Nanosecond(), before)
		encProp := ""
		if after := msgsString(frame); after != before {
			encProp = "FAIL * Write modified the caller's messages: " + trunc(after, 120)
		}
		cw.add(op, impl, lbl, encProp)
		if !strings.HasPrefix(impl, "ok ") {
			continue
		}
		plain := rec.plain[len(rec.plain)-1]
		streamCT = append(streamCT, ct...)
		if len(frame) > 0 {
			streamWant = append(streamWant, "ok "+before)
		} else {
			streamHasEmpty = true
		}
		got := readOnce(dec, ct)
		want := "ok " + before
		prop := "pass"
		if got != want {
			prop = "FAIL C01 Read(Write(x)) != x: got " + trunc(got, 200)
		} else if ch := retainedChanged(); ch != "" {
			prop = "FAIL * " + ch
		}
		cw.add("dec "+hexOf(plain), got, lbl, prop)
	}
}

func nt(nontrivial bool) string {
	if nontrivial {
		return "N"
	}
	return "T"
}

func trunc(s string, n int) string {
	if len(s) > n {
		return s[:n] + "…"
	}
	return s
}

func init() {
	streams["rt"] = func(g *gen, cw *caseWriter, n int, thorough bool) {
		for i := 0; i < n; i++ {
			frames := 1
			if g.chance(0.3) {
				frames = 2 + g.pick(3)
			}
			var ms [][]rscp.Message
			for f := 0; f < frames; f++ {
				ms = append(ms, g.tree())
			}
			key := string(g.bytes(1 + g.pick(32)))
			rtCase(cw, ms, g.chance(0.5), key, g.time(), "random")
		}
		// a frame that is given up while incomplete (connection lost in the middle of a reply): the caller empties its
		// buffer, keeps its other variables, and the next frame - longer, shorter, with and without checksum - decodes
		for i := 0; i < 10+n/10; i++ {
			a := plainFrame([]rscp.Message{{Tag: 0x00800001, DataType: rscp.ByteArray, Value: g.bytes(60 + g.pick(200))}}, i%2 == 0, g.time())
			b := plainFrame(g.tree(), i%4 < 2, g.time())
			if i%3 == 0 {
				b = plainFrame([]rscp.Message{{Tag: 0x00800002, DataType: rscp.ByteArray, Value: g.bytes(300 + g.pick(200))}}, i%4 < 2, g.time())
			}
			if a == nil || b == nil || len(a) < 96 {
				continue
			}
			fed := 32 * (1 + g.pick(len(a)/32-1))
			res := readChunksAbandon(identityMode{}, [][]byte{a[:fed], nil, b})
			prop := "pass"
			if want := readOnce(identityMode{}, b); len(res) != 2 || res[1] != want {
				prop = "FAIL C01 a frame that follows a frame given up while incomplete (buffer emptied by the caller) is not decoded as when it comes first: " + trunc(strings.Join(res, " | "), 120)
			}
			cw.add("decsa "+hexOf(a[:fed])+" X "+hexOf(b), strings.Join(res, " | "), "N frame-after-abandoned-frame", prop)
		}
		// streams whose frames alternate between the two checksum settings; among them pairs of frames of equal total
		// size (a checksummed frame with n data bytes and an unchecksummed one with n+4)
		for i := 0; i < 12+n/20; i++ {
			rtCrcPattern = [][]bool{{true, false}, {false, true}, {true, true, false}, {false, false, true}}[i%4]
			var ms [][]rscp.Message
			for f := 0; f < 4; f++ {
				ms = append(ms, g.tree())
			}
			if i%2 == 0 {
				k := g.pick(40)
				ms = [][]rscp.Message{{{Tag: 0x00800001, DataType: rscp.ByteArray, Value: g.bytes(k)}}, {{Tag: 0x00800002, DataType: rscp.ByteArray, Value: g.bytes(k + 4)}},
					{{Tag: 0x00800003, DataType: rscp.None}}, {{Tag: 0x00800004, DataType: rscp.Int32, Value: int32(-7)}}, {{Tag: 0x00800005, DataType: rscp.ByteArray, Value: g.bytes(k)}}}
				if i%4 == 2 {
					ms[0], ms[1] = ms[1], ms[0]
				}
			}
			rtCase(cw, ms, true, string(g.bytes(1+g.pick(32))), g.time(), "mixed-checksum-stream")
			rtCrcPattern = nil
		}
		// a Write that fails (an item whose value has the wrong Go type) and right after it a good one on the same cipher
		// pair: the good frame is what it would be alone
		for k := 0; k < 6; k++ {
			enc, dec := cbcPair("k")
			var mode cipher.BlockMode = enc
			bad := []rscp.Message{{Tag: 0x00800001, DataType: rscp.Int32, Value: 5}, {Tag: 0x00800002, DataType: rscp.CString, Value: []int{1}}, {Tag: 0x00800003, DataType: rscp.DataType(0x42), Value: uint8(1)}}[k%3 : k%3+1]
			func() {
				defer func() { recover() }()
				_, _ = rscp.Write(&mode, bad, k%2 == 0)
			}()
			good := g.tree()
			if len(good) == 0 {
				continue
			}
			// the failed call may or may not have used the cipher; what matters is the plaintext of the next frame
			rec := &recorder{BlockMode: enc}
			var rmode cipher.BlockMode = rec
			ct, err := rscp.Write(&rmode, good, true)
			prop := "pass"
			if err != nil {
				prop = "FAIL C01 a well-formed list is refused after a failed Write: " + err.Error()
			} else if got := readOnce(identityMode{}, rec.plain[len(rec.plain)-1]); got != "ok "+msgsString(good) {
				prop = "FAIL C01 after a failed Write the next frame does not decode to its messages: " + trunc(got, 120)
			}
			_, _ = ct, dec
			cw.add("skip", "skip", "N rt good-write-after-failed-write", prop)
		}
		// containers whose child lists are windows of one array (same start, different lengths; overlapping)
		{
			items := make([]rscp.Message, 0, 8)
			for k := 0; k < 6; k++ {
				items = append(items, rscp.Message{Tag: rscp.Tag(0x00800010 + k), DataType: rscp.CString, Value: strings.Repeat("w", 3+5*k)})
			}
			for _, fr := range [][]rscp.Message{
				{{Tag: 0x00800001, DataType: rscp.Container, Value: items[:1]}, {Tag: 0x00800002, DataType: rscp.Container, Value: items[:3]}},
				{{Tag: 0x00800001, DataType: rscp.Container, Value: items[:3]}, {Tag: 0x00800002, DataType: rscp.Container, Value: items[:1]}},
				{{Tag: 0x00800001, DataType: rscp.Container, Value: items[1:4]}, {Tag: 0x00800002, DataType: rscp.Container, Value: items[1:2]}, {Tag: 0x00800003, DataType: rscp.Container, Value: items[:6]}}} {
				rtCase(cw, [][]rscp.Message{fr}, true, "k", g.time(), "containers-sharing-an-array")
				rtCase(cw, [][]rscp.Message{fr}, false, "k", g.time(), "containers-sharing-an-array")
			}
		}
		// trees nested 100 … 5000 levels deep
		for _, d := range []int{100, 255, 256, 257, 300, 1000, 5000} {
			m := rscp.Message{Tag: 0x00800001, DataType: rscp.UChar8, Value: uint8(7)}
			for k := 0; k < d; k++ {
				m = rscp.Message{Tag: rscp.Tag(0x00800002 + uint32(k%5)), DataType: rscp.Container, Value: []rscp.Message{m}}
			}
			rtCase(cw, [][]rscp.Message{{m}}, d%2 == 0, "k", g.time(), fmt.Sprintf("nested depth=%d", d))
		}
		concurrentUnknownTags(cw, "rt")
		// strings of equal length and equal CRC-32 (found by a birthday search), one after the other in one process:
		// decoded values never depend on what was decoded before
		{
			seen := map[uint32]string{}
			var pairs [][2]string
			for k := 0; k < 400000 && len(pairs) < 3; k++ {
				b := make([]byte, 8)
				for j := range b {
					b[j] = "abcdefghijklmnopqrstuvwxyzABCDEFGHIJKLMNOPQRSTUVWXYZ0123456789"[g.pick(62)]
				}
				h := crc32.ChecksumIEEE(b)
				if o, ok := seen[h]; ok && o != string(b) {
					pairs = append(pairs, [2]string{o, string(b)})
				}
				seen[h] = string(b)
			}
			for _, pr := range pairs {
				for _, order := range [][2]string{{pr[0], pr[1]}, {pr[1], pr[0]}} {
					ms := [][]rscp.Message{{{Tag: rscp.INFO_SERIAL_NUMBER, DataType: rscp.CString, Value: order[0]}},
						{{Tag: rscp.INFO_SERIAL_NUMBER, DataType: rscp.CString, Value: order[1]}, {Tag: rscp.BAT_DATA, DataType: rscp.Container, Value: []rscp.Message{{Tag: rscp.BAT_DEVICE_NAME, DataType: rscp.CString, Value: order[0]}}}}}
					rtCase(cw, ms, true, "k", g.time(), "crc-colliding-strings")
				}
			}
		}
		// sizes around the block boundaries and the 16-bit limits, one by one
		var sizes []int
		for s := 0; s <= 70; s++ {
			sizes = append(sizes, s)
		}
		if thorough {
			for s := 65380; s <= 65528; s++ {
				sizes = append(sizes, s)
			}
		} else {
			sizes = append(sizes, 65480, 65503, 65504, 65505, 65506, 65507, 65508, 65509, 65510, 65511, 65512, 65526, 65527, 65528)
		}
		for _, s := range sizes {
			for _, crc := range []bool{false, true} {
				m := rscp.Message{Tag: rscp.RSCP_AUTHENTICATION_USER, DataType: rscp.CString, Value: string(g.bytes(s))}
				if s%2 == 1 {
					m = rscp.Message{Tag: rscp.WB_EXTERN_DATA, DataType: rscp.ByteArray, Value: g.bytes(s)}
				}
				rtCase(cw, [][]rscp.Message{{m}}, crc, "k", time.Unix(1700000000, 5).UTC(), fmt.Sprintf("size-edge=%d", s))
				if s > 14 {
					// the same total split over a container with two children
					a := (s - 14) / 2
					c := rscp.Message{Tag: rscp.BAT_REQ_DATA, DataType: rscp.Container, Value: []rscp.Message{
						{Tag: rscp.RSCP_AUTHENTICATION_USER, DataType: rscp.CString, Value: string(g.bytes(a))},
						{Tag: rscp.WB_EXTERN_DATA, DataType: rscp.ByteArray, Value: g.bytes(s - 14 - a)}}}
					rtCase(cw, [][]rscp.Message{{c}}, crc, "k", time.Unix(0, 0).UTC(), fmt.Sprintf("size-edge-nested=%d", s))
				}
			}
		}
	}
}

// ---- frame layout: where the fields of every item are --------------------------------------

type itemPos struct {
	off   int // offset of the item header in the frame
	depth int
	size  int // declared data length
	dt    rscp.DataType
}

func layout(ms []rscp.Message, off, depth int, out *[]itemPos) int {
	for _, m := range ms {
		var sz int
		switch v := m.Value.(type) {
		case string:
			sz = len(v)
		case []byte:
			sz = len(v)
		case []rscp.Message:
			sz = msgsSizeWide(v)
		default:
			sz = int(rscp.VerifLength(m.DataType))
		}
		*out = append(*out, itemPos{off, depth, sz, m.DataType})
		if c, ok := m.Value.([]rscp.Message); ok {
			layout(c, off+7, depth+1, out)
		}
		off += 7 + sz
	}
	return off
}

// fixCRC recomputes the trailer of a plaintext frame in place if it announces one
func fixCRC(p []byte) {
	if len(p) < 18 {
		return
	}
	c := binary.LittleEndian.Uint16(p[2:])
	if c&0x1000 == 0 {
		return
	}
	l := int(binary.LittleEndian.Uint16(p[16:]))
	if len(p) < 18+l+4 {
		return
	}
	binary.LittleEndian.PutUint32(p[18+l:], crc32.ChecksumIEEE(p[:18+l]))
}

func plainFrame(ms []rscp.Message, crc bool, now time.Time) []byte {
	rscp.Now = func() time.Time { return now }
	defer func() { rscp.Now = time.Now }()
	b, err := rscp.VerifWriteFrame(ms, crc)
	if err != nil {
		return nil
	}
	return padBlocks(b)
}

// ---- stream any: arbitrary bytes into the decoder (C02, C03, C04) --------------------------

var anyCounter int

func anyCase(cw *caseWriter, p []byte, label string) {
	about("dec " + hexOf(p))
	got := readOnce(identityMode{}, p)
	prop := "pass"
	anyCounter++
	if anyCounter%1 == 0 {
		// what the decoder returns does not depend on the log level (every case is decoded a second time at trace level)
		old := rscp.Log.GetLevel()
		oldOut := rscp.Log.Out
		rscp.Log.SetOutput(io.Discard)
		rscp.Log.SetLevel(logrus.TraceLevel)
		again := readOnce(identityMode{}, p)
		rscp.Log.SetLevel(old)
		rscp.Log.SetOutput(oldOut)
		if again != got {
			cw.add("skip", "skip", "N any log-level", "FAIL * the decoder's result depends on the log level: "+trunc(got, 80)+" at the default level, "+trunc(again, 80)+" at trace level, for "+trunc(hexOf(p), 200))
		}
	}
	if got == "panic" || got == "hang" {
		prop = "FAIL C02 decoder " + got
	} else if got == "overwrote-caller-memory" || got == "result-shares-the-callers-buffer" {
		prop = "FAIL * decoder: " + got
	}
	h := hexOf(p)
	if !strings.HasPrefix(label, "N ") && !strings.HasPrefix(label, "T ") {
		label = "N " + label
	}
	cw.add("dec "+h, got, label, prop)
	// the same bytes against the specification
	sp := "none"
	if strings.HasPrefix(got, "ok ") {
		sp = "some " + got[3:]
	} else if got == "panic" || got == "hang" {
		sp = got
	}
	if len(p) >= 32 && len(p)%32 == 0 {
		cw.add("spec "+h, sp, label, "")
	}
}

func chunkCase(cw *caseWriter, g *gen, p []byte, label string) {
	chunkCaseCut(cw, g, p, label, 0)
}

// chunkCaseCut: cutAt > 0 asks for exactly two pieces, the first of cutAt blocks
func chunkCaseCut(cw *caseWriter, g *gen, p []byte, label string, cutAt int) {
	if len(p) < 64 || len(p)%32 != 0 {
		return
	}
	nb := len(p) / 32
	var chunks [][]byte
	if cutAt > 0 && cutAt < nb {
		chunks = [][]byte{p[:cutAt*32], p[cutAt*32:]}
		nb = 0
	}
	for i := 0; i < nb; {
		k := 1 + g.pick(3)
		if g.chance(0.2) {
			k = 1 + g.pick(nb)
		}
		if i+k > nb {
			k = nb - i
		}
		chunks = append(chunks, p[i*32:(i+k)*32])
		i += k
	}
	res := readChunks(identityMode{}, chunks)
	var hs []string
	for _, c := range chunks {
		hs = append(hs, hexOf(c))
	}
	prop := "pass"
	for _, r := range res {
		if r == "panic" || r == "hang" {
			prop = "FAIL C02 decoder " + r
		} else if r == "overwrote-caller-memory" || r == "result-shares-the-callers-buffer" {
			prop = "FAIL * decoder: " + r
		}
	}
	// Go-side oracle of C03 "chunking": the verdict for the pieces (the caller reuses its buffer between the calls) is
	// the verdict for the whole; calls before the last one can only say "incomplete"
	if prop == "pass" && len(res) > 0 {
		whole := readOnce(identityMode{}, p)
		last := res[len(res)-1]
		early := false // a call before the last one already gave a verdict: what follows is a different stream
		for _, r := range res[:len(res)-1] {
			if r != "err invalidFrameLength" {
				early = true
			}
		}
		if !early && (strings.HasPrefix(whole, "ok ") || strings.HasPrefix(last, "ok ")) && whole != last {
			prop = "FAIL C03 delivered in pieces the frame gives " + trunc(last, 80) + ", in one piece " + trunc(whole, 80)
		}
		// the pieces of a well-formed frame never draw an error other than "incomplete"
		if strings.HasPrefix(whole, "ok ") {
			for _, r := range res {
				if strings.HasPrefix(r, "err ") && r != "err invalidFrameLength" {
					prop = "FAIL C03 a piece of a well-formed frame is answered with " + trunc(r, 60) + " instead of incomplete"
					break
				}
				if r != "err invalidFrameLength" {
					break
				}
			}
		}
	}
	if !strings.HasPrefix(label, "N ") && !strings.HasPrefix(label, "T ") {
		label = "N " + label
	}
	cw.add("decs "+strings.Join(hs, " "), strings.Join(res, " | "), label+fmt.Sprintf(" chunks=%d", len(chunks)), prop)
}

func (g *gen) mutate(cw *caseWriter, ms []rscp.Message, crc bool, thorough bool) {
	base := plainFrame(ms, crc, g.time())
	if base == nil || len(base) > 4096 {
		return
	}
	var items []itemPos
	end := layout(ms, 18, 0, &items)
	_ = end
	anyCase(cw, base, "valid "+treeLabel(ms))
	chunkCase(cw, g, base, "valid-chunked")
	clone := func() []byte { return append([]byte{}, base...) }
	emit := func(p []byte, label string, refix bool) {
		if refix && g.chance(0.7) {
			fixCRC(p)
			label += " crc-refixed"
		}
		anyCase(cw, p, label)
		if g.chance(0.3) {
			chunkCase(cw, g, p, label)
		}
	}
	if len(items) > 0 {
		// type byte
		it := items[g.pick(len(items))]
		codes := []int{g.pick(256), 0x11, 0x00, 0x0e, 0xfe}
		if thorough {
			codes = codes[:0]
			for c := 0; c < 256; c++ {
				codes = append(codes, c)
			}
		}
		for _, c := range codes {
			p := clone()
			p[it.off+4] = byte(c)
			emit(p, fmt.Sprintf("type-byte=%d depth=%d", c, it.depth), true)
		}
		// length field of an item at some level
		for k := 0; k < 4; k++ {
			it = items[g.pick(len(items))]
			for _, d := range []int{-1, 1, -2, 2, -7, 7, 8, 32, -it.size, 65535 - it.size, 65528 - it.size, 65529 - it.size} {
				nl := it.size + d
				if nl < 0 || nl > 65535 {
					continue
				}
				p := clone()
				binary.LittleEndian.PutUint16(p[it.off+5:], uint16(nl))
				emit(p, fmt.Sprintf("item-len%+d depth=%d dt=%d", d, it.depth, it.dt), true)
			}
		}
	}
	// frame length
	l := int(binary.LittleEndian.Uint16(base[16:]))
	for _, d := range []int{-1, 1, -4, 4, -7, 7, 14, 32, -l, 65535 - l, 65514 - l, 65518 - l} {
		nl := l + d
		if nl < 0 || nl > 65535 {
			continue
		}
		p := clone()
		binary.LittleEndian.PutUint16(p[16:], uint16(nl))
		emit(p, fmt.Sprintf("frame-len%+d", d), true)
	}
	// control word
	for k := 0; k < 6; k++ {
		p := clone()
		c := binary.LittleEndian.Uint16(p[2:])
		if k < 3 {
			c ^= 1 << uint(g.pick(16))
		} else {
			c = uint16(g.r.Uint32())
		}
		binary.LittleEndian.PutUint16(p[2:], c)
		emit(p, "ctrl", true)
	}
	// magic
	p := clone()
	p[g.pick(2)] ^= 1 << uint(g.pick(8))
	emit(p, "magic", true)
	// truncation / extension
	if len(base) > 32 {
		emit(clone()[:len(base)-32], "truncated", false)
	}
	emit(append(clone(), make([]byte, 32)...), "extended-zero-block", false)
	ext := append(clone(), make([]byte, 32)...)
	ext[len(ext)-1-g.pick(32)] = byte(1 + g.pick(255))
	emit(ext, "extended-nonzero-block", false)
	// padding content
	fs := 18 + l
	if crc {
		fs += 4
	}
	if fs < len(base) {
		p = clone()
		p[fs+g.pick(len(base)-fs)] = byte(1 + g.pick(255))
		emit(p, "padding-dirty", false)
	}
	// CRC field
	if crc {
		p = clone()
		p[18+l+g.pick(4)] ^= 1 << uint(g.pick(8))
		emit(p, "crc-field", false)
		p = clone()
		p[3] &^= 0x10 // clear the flag: the trailer becomes trailing data / payload
		emit(p, "crc-flag-cleared", false)
	} else {
		p = clone()
		p[3] |= 0x10
		emit(p, "crc-flag-set", false)
	}
	// random byte edits
	for k := 0; k < 4; k++ {
		p = clone()
		for j := 0; j <= g.pick(3); j++ {
			p[g.pick(len(p))] = byte(g.r.Uint32())
		}
		emit(p, "random-edit", true)
	}
}

func init() {
	streams["any"] = func(g *gen, cw *caseWriter, n int, thorough bool) {
		for i := 0; i < n; i++ {
			switch {
			case i%10 == 9:
				// raw random bytes, sometimes with a plausible header
				p := g.bytes(32 * (1 + g.pick(6)))
				if g.chance(0.6) {
					p[0], p[1], p[2] = 0xe3, 0xdc, 0
					p[3] = []byte{0x01, 0x11}[g.pick(2)]
					if g.chance(0.7) {
						binary.LittleEndian.PutUint16(p[16:], uint16(g.pick(len(p))))
					}
				}
				anyCase(cw, p, "random-bytes")
				chunkCase(cw, g, p, "random-bytes")
			default:
				budget := 600
				ms := g.msgs([]int{0, 1, 2, 3}[g.pick(4)], []int{0, 1, 1, 2, 3, 4}[g.pick(6)], &budget)
				g.mutate(cw, ms, g.chance(0.6), thorough && i%50 == 0)
			}
		}
		// well-formed frames at the upper end of the 16-bit length field, whole and in pieces
		for _, dl := range []int{65510, 65513, 65514, 65517, 65518, 65535} {
			for _, crc := range []bool{false, true} {
				v := dl - 7
				ms := []rscp.Message{{Tag: rscp.WB_EXTERN_DATA, DataType: rscp.ByteArray, Value: g.bytes(v)}}
				p := plainFrame(ms, crc, g.time())
				if p == nil {
					continue
				}
				anyCase(cw, p, fmt.Sprintf("N giant-frame data=%d crc=%v", dl, crc))
				chunkCase(cw, g, p, fmt.Sprintf("N giant-frame data=%d crc=%v", dl, crc))
			}
		}
		// value edges written by hand (the library's own writer cannot produce all of them): time stamps with every
		// combination of extreme seconds and nanosecond fields (negative, ≥ 10⁹, top bit set), numbers at their range
		// ends, booleans other than 0/1, empty and NUL-carrying strings — top level, nested, last and not last
		le := func(v uint64, n int) []byte {
			b := make([]byte, n)
			for i := 0; i < n; i++ {
				b[i] = byte(v >> (8 * uint(i)))
			}
			return b
		}
		var edgeItems [][]byte
		for _, sec := range []uint64{0, 1, 0xffffffffffffffff, 0x7fffffffffffffff, 0x8000000000000000, 253402300800, 0xfffffff1886e0900} {
			for _, ns := range []uint64{0, 1, 999999999, 1000000000, 0x7fffffff, 0x80000000, 0xffffffff, 0xc4653600, 0xc46535ff} {
				edgeItems = append(edgeItems, itemBytes(0x00800001, 0x0f, append(le(sec, 8), le(ns, 4)...)))
			}
		}
		for _, tc := range []struct {
			dt byte
			n  int
		}{{1, 1}, {2, 1}, {3, 1}, {4, 2}, {5, 2}, {6, 4}, {7, 4}, {8, 8}, {9, 8}, {10, 4}, {11, 8}, {12, 1}, {0xff, 4}} {
			for _, v := range []uint64{0, 1, 2, 0x7f, 0x80, 0xff, 0x7fff, 0x8000, 0xffff, 0x7fffffff, 0x80000000, 0xffffffff, 0x7fffffffffffffff, 0x8000000000000000, 0xffffffffffffffff, 0x7fc00001, 0x7ff8000000000001} {
				edgeItems = append(edgeItems, itemBytes(0x00800002, tc.dt, le(v, tc.n)))
			}
		}
		for _, str := range []string{"", "\x00", "a\x00b", "\xff\xfe", strings.Repeat("\x00", 40)} {
			edgeItems = append(edgeItems, itemBytes(0x00800003, 0x0d, []byte(str)), itemBytes(0x00800004, 0x10, []byte(str)))
		}
		for k, it := range edgeItems {
			crc := k%2 == 0
			other := itemBytes(0x00800005, 3, []byte{9})
			anyCase(cw, padBlocks(frameBytes(it, crc, 1, 2)), "N value-edge alone")
			anyCase(cw, padBlocks(frameBytes(append(append([]byte{}, it...), other...), !crc, 1, 2)), "N value-edge first")
			nested := itemBytes(0x00800006, 0x0e, append(append([]byte{}, other...), it...))
			anyCase(cw, padBlocks(frameBytes(nested, crc, 1, 2)), "N value-edge nested-last")
		}
		// known tags arriving with a data type other than the declared one: the tree is what the bytes say. Every tag with a
		// declared type gets two other types (thorough: all), a sample of the tags without a declared type likewise.
		{
			var tags []rscp.Tag
			for _, t := range g.known {
				if t.DataType() != rscp.None || g.pick(25) == 0 {
					tags = append(tags, t)
				}
			}
			for k, t := range tags {
				var others []rscp.DataType
				for _, dt := range definedTypes {
					if dt != t.DataType() && dt != rscp.Container {
						others = append(others, dt)
					}
				}
				if !thorough {
					a, b := g.pick(len(others)), g.pick(len(others))
					others = []rscp.DataType{others[a], others[b]}
					// the signed/unsigned twin of the declared type is the likeliest "deviation" of a device
					twin := map[rscp.DataType]rscp.DataType{rscp.Int32: rscp.Uint32, rscp.Uint32: rscp.Int32, rscp.Char8: rscp.UChar8, rscp.UChar8: rscp.Char8,
						rscp.Int16: rscp.UInt16, rscp.UInt16: rscp.Int16, rscp.Int64: rscp.Uint64, rscp.Uint64: rscp.Int64, rscp.Float32: rscp.Double64, rscp.Double64: rscp.Float32, rscp.Bool: rscp.UChar8}
					if tw, ok := twin[t.DataType()]; ok {
						others = append(others, tw)
					}
				}
				for _, dt := range others {
					b := 40
					m := rscp.Message{Tag: t, DataType: dt, Value: g.value(dt, 0, &b)}
					switch dt { // values with the top bit set show a change of signedness
					case rscp.Uint32:
						m.Value = uint32(3000000000) + uint32(g.pick(1000))
					case rscp.UChar8:
						m.Value = uint8(200 + g.pick(50))
					case rscp.UInt16:
						m.Value = uint16(60000 + g.pick(5000))
					case rscp.Uint64:
						m.Value = uint64(1)<<63 + uint64(g.pick(1000))
					}
					if k%3 == 0 {
						m = rscp.Message{Tag: rscp.BAT_DATA, DataType: rscp.Container, Value: []rscp.Message{m}}
					}
					if pl := plainFrame([]rscp.Message{m}, k%2 == 0, g.time()); pl != nil {
						anyCase(cw, pl, "N known-tag-with-other-type")
					}
				}
			}
		}
		// frames whose data ends exactly on a block boundary, so that of a checksummed frame only the checksum (and padding)
		// is in the last block - cut there, and one block earlier
		for k := 1; k <= 6; k++ {
			for _, crc := range []bool{true, false} {
				pl := plainFrame([]rscp.Message{{Tag: 0x00800001, DataType: rscp.ByteArray, Value: g.bytes(32*k - 18 - 7)}}, crc, g.time())
				if pl == nil {
					continue
				}
				chunkCaseCut(cw, g, pl, fmt.Sprintf("N data-ends-on-block-boundary k=%d crc=%v", k, crc), k)
				if k > 1 {
					chunkCaseCut(cw, g, pl, fmt.Sprintf("N data-ends-on-block-boundary k=%d crc=%v", k, crc), k-1)
				}
			}
		}
		// nothing but zero padding after the frame, however much: the largest frame plus one and plus five zero blocks, a
		// small frame plus 2048 and 2100 zero blocks — whole and in pieces
		{
			big := plainFrame([]rscp.Message{{Tag: rscp.WB_EXTERN_DATA, DataType: rscp.ByteArray, Value: g.bytes(65528)}}, true, g.time())
			small := plainFrame([]rscp.Message{{Tag: rscp.BAT_INDEX, DataType: rscp.UInt16, Value: uint16(7)}}, true, g.time())
			for _, c := range []struct {
				base []byte
				zero int
			}{{big, 1}, {big, 5}, {small, 2048}, {small, 2100}, {small, 1}} {
				p := append(append([]byte{}, c.base...), make([]byte, 32*c.zero)...)
				anyCase(cw, p, fmt.Sprintf("N zero-blocks-after-frame blocks=%d zero=%d", len(c.base)/32, c.zero))
				// … delivered so that the last piece carries the frame's final block and the zero blocks
				cut := len(c.base) - 32
				if cut > 0 {
					res := readChunks(identityMode{}, [][]byte{p[:cut], p[cut:]})
					cw.add("decs "+hexOf(p[:cut])+" "+hexOf(p[cut:]), strings.Join(res, " | "), fmt.Sprintf("N zero-blocks-after-frame chunked zero=%d", c.zero), "")
				}
			}
		}
		// time stamps whose seconds are within a few seconds of the largest instant time.Time arithmetic can hold, with
		// nanoseconds outside [0, 10⁹)
		for _, sec := range []uint64{9223371974719179005, 9223371974719179006, 9223371974719179007, 9223371974719179008, 9223371974719179009, 0x8000000000000001, 0x7ffffffffffffffe} {
			for _, ns := range []uint32{1500000000, 0x7fffffff, 0xffffffff, 0x80000000, 2000000000} {
				it := itemBytes(0x00800001, 0x0f, append(binary.LittleEndian.AppendUint64(nil, sec), binary.LittleEndian.AppendUint32(nil, ns)...))
				anyCase(cw, padBlocks(frameBytes(it, true, 1, 2)), "N timestamp-near-saturation")
			}
		}
		// unknown tags in every one of the 256 namespaces (top byte), request and response side
		for ns := 0; ns < 256; ns++ {
			for _, low := range []uint32{0x00fffffe, 0x007ffffe} {
				t := uint32(ns)<<24 | low
				if rscp.Tag(t).IsATag() {
					continue
				}
				anyCase(cw, padBlocks(frameBytes(append(itemBytes(t, 3, []byte{1}), itemBytes(0x00800006, 0x0e, itemBytes(t, 0, nil))...), ns%2 == 0, 1, 2)), "N unknown-tag-namespace")
			}
		}
		// the 12 time bytes of the header are not part of well-formedness: every value is accepted
		for _, sec := range []uint64{0, 1, 0xffffffffffffffff, 0x7fffffffffffffff, 0x8000000000000000, 253402300800} {
			for _, ns := range []uint32{0, 999999999, 1000000000, 0x7fffffff, 0x80000000, 0xffffffff} {
				p := padBlocks(frameBytes(itemBytes(0x00800005, 3, []byte{9}), ns%2 == 0, 0, 0))
				binary.LittleEndian.PutUint64(p[4:], sec)
				binary.LittleEndian.PutUint32(p[12:], ns)
				if p[3]&0x10 != 0 {
					fixCRC(p)
				}
				anyCase(cw, p, "N header-time-edge")
			}
		}
		// several goroutines decode frames with tags the vocabulary does not know — every frame with tags nobody has seen
		// before — at the same time (each with its own decoder state): the results are what the bytes say
		concurrentUnknownTags(cw, "any")
		// deeply nested containers: decoding has to stay linear in the size of the frame
		depths := []int{25, 40, 64, 200, 1000, 9358} // 9358 levels of 7 bytes + one 8-byte item = the largest frame
		if thorough {
			depths = append(depths, 3000, 6000, 8000, 9000)
		}
		for _, d := range depths {
			it := itemBytes(0x00800005, 3, []byte{9})
			for k := 0; k < d; k++ {
				it = itemBytes(0x00800006+uint32(k%3), 0x0e, it)
			}
			{
				// decoding stays proportionate in memory as well: a frame of at most 64 KiB never needs hundreds of MiB
				p := padBlocks(frameBytes(it, d%2 == 0, 1, 2))
				var m0, m1 runtime.MemStats
				runtime.ReadMemStats(&m0)
				_ = readChunksSeq(identityMode{}, [][]byte{p}, false)
				runtime.ReadMemStats(&m1)
				if grown := (m1.TotalAlloc - m0.TotalAlloc) >> 20; grown > 128 {
					cw.add("skip", "skip", fmt.Sprintf("N deep-nesting depth=%d allocation", d), fmt.Sprintf("FAIL C02 decoding a frame of %d bytes (containers nested %d deep) allocates %d MiB: %s", len(p), d, grown, trunc(hexOf(p), 120)))
				}
			}
			anyCase(cw, padBlocks(frameBytes(it, d%2 == 0, 1, 2)), fmt.Sprintf("N deep-nesting depth=%d", d))
			// … and two children per level near the top (a count pass over the children would double the work per level)
			if d <= 64 {
				leaf := itemBytes(0x00800005, 3, []byte{9})
				it2 := leaf
				for k := 0; k < d; k++ {
					it2 = itemBytes(0x00800006, 0x0e, append(append([]byte{}, leaf...), it2...))
				}
				anyCase(cw, padBlocks(frameBytes(it2, true, 1, 2)), fmt.Sprintf("N deep-nesting two-children depth=%d", d))
				chunkCase(cw, g, padBlocks(frameBytes(it2, true, 1, 2)), fmt.Sprintf("N deep-nesting two-children depth=%d", d))
			}
		}
		if thorough {
			// every control word on a fixed small frame, with and without matching CRC
			ms := []rscp.Message{{Tag: rscp.BAT_INDEX, DataType: rscp.UInt16, Value: uint16(7)}}
			base := plainFrame(ms, true, time.Unix(1, 2).UTC())
			for c := 0; c < 65536; c++ {
				p := append([]byte{}, base...)
				binary.LittleEndian.PutUint16(p[2:], uint16(c))
				fixCRC(p)
				anyCase(cw, p, "ctrl-exhaustive")
			}
			// every declared frame length on a two-block frame
			for l := 0; l < 65536; l += 1 {
				if l > 200 && l < 65300 && l%97 != 0 {
					continue
				}
				p := append([]byte{}, base...)
				binary.LittleEndian.PutUint16(p[16:], uint16(l))
				anyCase(cw, p, "framelen-exhaustive")
			}
		}
	}
}

// ---- stream val: request validation (C05) ---------------------------------------------------

func valCase(cw *caseWriter, ms []rscp.Message, label string) {
	var impl string
	before := msgsString(ms)
	about("val " + before)
	func() {
		defer func() {
			if r := recover(); r != nil {
				impl = "panic"
			}
		}()
		if err := rscp.VerifValidateRequests(ms); err != nil {
			impl = "err " + errClass(err)
		} else {
			impl = "ok "
		}
	}()
	prop := "pass"
	if impl == "panic" {
		prop = "FAIL C05 validateRequests panics"
	} else if after := msgsString(ms); after != before {
		prop = "FAIL * validateRequests modified the caller's messages: " + trunc(after, 120)
	} else if strings.HasPrefix(label, "nested depth=") {
		var d int
		fmt.Sscanf(label, "nested depth=%d", &d)
		if (d <= 9362) != (impl == "ok ") {
			prop = fmt.Sprintf("FAIL C05 a request nested %d levels deep (it %s the 16-bit length fields) gives %s", d, map[bool]string{true: "fits", false: "does not fit"}[d <= 9362], impl)
		}
	}
	cw.add("val "+before, impl, nt(!strings.HasPrefix(label, "valid items=1 "))+" "+label, prop)
}

func (g *gen) requestList() []rscp.Message {
	budget := 3000
	n := 1 + g.pick(4)
	var ms []rscp.Message
	for i := 0; i < n; i++ {
		m := g.msg([]int{0, 1, 2, 3}[g.pick(4)], &budget)
		m.Tag = g.reqTag()
		ms = append(ms, m)
	}
	return ms
}

// corrupt replaces, at a random position of the tree, one aspect of a message
func (g *gen) corrupt(ms []rscp.Message) (string, bool) {
	if len(ms) == 0 {
		return "", false
	}
	i := g.pick(len(ms))
	if c, ok := ms[i].Value.([]rscp.Message); ok && len(c) > 0 && g.chance(0.7) {
		l, ok := g.corrupt(c)
		return "deep-" + l, ok
	}
	switch g.pick(3) {
	case 0:
		ms[i].Value = g.wrongValue(ms[i].DataType)
		return "wrong-value", true
	case 1:
		ms[i].DataType = rscp.DataType(g.pick(256))
		return fmt.Sprintf("type-code=%d", ms[i].DataType), true
	default:
		ms[i].DataType = definedTypes[g.pick(len(definedTypes))]
		return "other-type", true
	}
}

func init() {
	streams["val"] = func(g *gen, cw *caseWriter, n int, thorough bool) {
		for i := 0; i < n; i++ {
			ms := g.requestList()
			switch g.pick(5) {
			case 0, 1:
				valCase(cw, ms, "valid "+treeLabel(ms))
			case 2, 3:
				l, _ := g.corrupt(ms)
				valCase(cw, ms, l+" "+treeLabel(ms))
			default:
				ms[g.pick(len(ms))].Tag = g.respTags[g.pick(len(g.respTags))]
				valCase(cw, ms, "response-tag")
			}
		}
		// request lists whose encoded size is a multiple of 2^32 plus a little: many requests sharing one value, so that
		// the list itself is small. Judged on the Go side alone (the text of such a list would be gigabytes): refused
		for _, tc := range []struct{ per, count, extra int }{{32768, 131072, 0}, {32768, 131072, 20}, {65536 - 8, 65544, 64}, {32768, 262144, 0}, {16384, 262144 + 1, 0}} {
			s := strings.Repeat("x", tc.per-7)
			ms := make([]rscp.Message, tc.count, tc.count+1)
			for k := range ms {
				ms[k] = rscp.Message{Tag: rscp.INFO_REQ_UTC_TIME, DataType: rscp.CString, Value: s}
			}
			if tc.extra > 0 {
				ms = append(ms, rscp.Message{Tag: rscp.INFO_REQ_UTC_TIME, DataType: rscp.CString, Value: strings.Repeat("y", tc.extra)})
			}
			for _, nested := range []bool{false, true} {
				reqs := ms
				if nested {
					reqs = []rscp.Message{{Tag: rscp.BAT_REQ_DATA, DataType: rscp.Container, Value: ms}}
				}
				about(fmt.Sprintf("val of %d requests of %d bytes sharing one value (+%d) nested=%v", tc.count, tc.per, tc.extra, nested))
				prop := "pass"
				func() {
					defer func() {
						if r := recover(); r != nil {
							prop = "FAIL C05 validating a request list of 4 GiB and more panics"
						}
					}()
					if err := rscp.VerifValidateRequests(reqs); !errors.Is(err, rscp.ErrRscpDataLimitExceeded) {
						prop = fmt.Sprintf("FAIL C05 %d requests of %d bytes each (+%d; one shared value, nested=%v) encode to %d bytes and are not refused as too large: %v", tc.count, tc.per, tc.extra, nested, uint64(tc.count)*uint64(tc.per)+uint64(tc.extra), err)
					}
				}()
				cw.add("skip", "skip", "N val size-beyond-2^32", prop)
			}
		}
		// all type codes with nil and with a byte value, top level and nested
		for c := 0; c < 256; c++ {
			for _, v := range []interface{}{nil, uint8(1), "x", []rscp.Message{}} {
				m := rscp.Message{Tag: rscp.INFO_REQ_UTC_TIME, DataType: rscp.DataType(c), Value: v}
				valCase(cw, []rscp.Message{m}, fmt.Sprintf("type-code=%d top", c))
				valCase(cw, []rscp.Message{{Tag: rscp.BAT_REQ_DATA, DataType: rscp.Container, Value: []rscp.Message{m}}}, fmt.Sprintf("type-code=%d nested", c))
			}
		}
		// values of defined (named) Go types whose underlying type would fit, under every data type
		for _, dt := range definedTypes {
			for k, v := range namedValues {
				m := rscp.Message{Tag: rscp.INFO_REQ_UTC_TIME, DataType: dt, Value: v}
				valCase(cw, []rscp.Message{m}, fmt.Sprintf("named-type=%d dt=%d top", k, dt))
				valCase(cw, []rscp.Message{{Tag: rscp.BAT_REQ_DATA, DataType: rscp.Container, Value: []rscp.Message{m}}}, fmt.Sprintf("named-type=%d dt=%d nested", k, dt))
			}
		}
		// request trees nested as deep as the 16-bit length fields allow (9 362 levels) and one level beyond
		vdepths := []int{2000, 9361, 9362, 9363}
		for _, d := range vdepths {
			m := rscp.Message{Tag: rscp.INFO_REQ_UTC_TIME, DataType: rscp.None}
			for k := 0; k < d-1; k++ {
				m = rscp.Message{Tag: rscp.BAT_REQ_DATA, DataType: rscp.Container, Value: []rscp.Message{m}}
			}
			valCase(cw, []rscp.Message{m}, fmt.Sprintf("nested depth=%d", d))
		}
		// values that contain themselves, under a few data types, top level and nested: refused like any other wrong value
		for k, v := range selfReferential() {
			for _, dt := range []rscp.DataType{rscp.CString, rscp.Container, rscp.UChar8, rscp.None} {
				m := rscp.Message{Tag: rscp.INFO_REQ_UTC_TIME, DataType: dt, Value: v}
				valCase(cw, []rscp.Message{m}, fmt.Sprintf("self-referential=%d dt=%d top", k, dt))
				valCase(cw, []rscp.Message{{Tag: rscp.BAT_REQ_DATA, DataType: rscp.Container, Value: []rscp.Message{m}}}, fmt.Sprintf("self-referential=%d dt=%d nested", k, dt))
			}
		}
		// an item declared value-less that carries the value its tag's table type would take (and others)
		for _, dt := range definedTypes {
			ts := g.byType[dt]
			if len(ts) == 0 || dt == rscp.None {
				continue
			}
			for j := 0; j < 3; j++ {
				t := ts[g.pick(len(ts))] | 0 // request or response side, as the table has it
				b := 100
				m := rscp.Message{Tag: t, DataType: rscp.None, Value: g.value(dt, 1, &b)}
				valCase(cw, []rscp.Message{m}, fmt.Sprintf("none-with-tag-typed-value dt=%d", dt))
				valCase(cw, []rscp.Message{{Tag: rscp.BAT_REQ_DATA, DataType: rscp.Container, Value: []rscp.Message{m}}}, fmt.Sprintf("none-with-tag-typed-value dt=%d nested", dt))
			}
		}
		// sizes around the limits
		var vs []int
		for v := 65520; v <= 65545; v++ {
			vs = append(vs, v)
		}
		vs = append(vs, 131072, 131073, 131079, 131080, 196608, 65535+65536)
		if !thorough {
			vs = []int{65527, 65528, 65529, 65535, 65536, 65541, 131072, 131079}
		}
		for _, v := range vs {
			s := strings.Repeat("a", v)
			valCase(cw, []rscp.Message{{Tag: rscp.RSCP_AUTHENTICATION_USER &^ 0, DataType: rscp.CString, Value: s}}, fmt.Sprintf("value-size=%d", v))
			valCase(cw, []rscp.Message{{Tag: rscp.WB_REQ_DATA, DataType: rscp.ByteArray, Value: []byte(s)}}, fmt.Sprintf("value-size=%d bytes", v))
			valCase(cw, []rscp.Message{{Tag: rscp.BAT_REQ_DATA, DataType: rscp.Container, Value: []rscp.Message{{Tag: 1, DataType: rscp.CString, Value: s}}}}, fmt.Sprintf("value-size=%d nested", v))
		}
		var ts []int
		for t := 65520; t <= 65560; t++ {
			ts = append(ts, t)
		}
		ts = append(ts, 80000, 131072, 131073, 131080, 131100)
		if !thorough {
			ts = []int{65534, 65535, 65536, 65537, 65550, 80000, 131072, 131086}
		}
		for _, t := range ts {
			// two strings whose items total t bytes
			a := (t - 14) / 2
			b := t - 14 - a
			ms := []rscp.Message{{Tag: 1, DataType: rscp.CString, Value: strings.Repeat("a", a)}, {Tag: 2, DataType: rscp.CString, Value: strings.Repeat("b", b)}}
			valCase(cw, ms, fmt.Sprintf("total-size=%d", t))
			valCase(cw, []rscp.Message{{Tag: rscp.BAT_REQ_DATA, DataType: rscp.Container, Value: ms}}, fmt.Sprintf("total-size=%d in-container", t+7))
		}
	}
}

// ---- replayers ------------------------------------------------------------------------------

func init() {
	replayers["dec"] = func(op string) string {
		f := strings.Fields(op)
		if len(f) != 2 {
			return "bad-op"
		}
		b, err := unhex(f[1])
		if err != nil {
			return "bad-op"
		}
		return readOnce(identityMode{}, b)
	}
	replayers["spec"] = func(op string) string {
		f := strings.Fields(op)
		if len(f) != 2 {
			return "bad-op"
		}
		b, err := unhex(f[1])
		if err != nil {
			return "bad-op"
		}
		got := readOnce(identityMode{}, b)
		if strings.HasPrefix(got, "ok ") {
			return "some " + got[3:]
		} else if got == "panic" || got == "hang" {
			return got
		}
		return "none"
	}
	replayers["decs"] = func(op string) string {
		f := strings.Fields(op)
		var chunks [][]byte
		for _, h := range f[1:] {
			b, err := unhex(h)
			if err != nil {
				return "bad-op"
			}
			chunks = append(chunks, b)
		}
		return strings.Join(readChunks(identityMode{}, chunks), " | ")
	}
}

func writeWith(rec *recorder, ms []rscp.Message) ([]byte, error) {
	var m cipher.BlockMode = rec
	return rscp.Write(&m, ms, true)
}

// concurrentUnknownTags: 8 goroutines × 40 frames × 20 fresh unknown tags each
func concurrentUnknownTags(cw *caseWriter, stream string) {
	about("dec (frames of 20 items with fresh unknown tags 0x7f8xxxxx, decoded on 8 goroutines at once)")
	var wgc sync.WaitGroup
	bad := make([]string, 8)
	for w := 0; w < 8; w++ {
		wgc.Add(1)
		go func(w int) {
			defer wgc.Done()
			for round := 0; round < 40; round++ {
				var items []byte
				var ms []rscp.Message
				for j := 0; j < 20; j++ {
					t := 0x7f800000 | uint32(w)<<16 | uint32(round)<<8 | uint32(j)
					items = append(items, itemBytes(t, 3, []byte{byte(j)})...)
					ms = append(ms, rscp.Message{Tag: rscp.Tag(t), DataType: rscp.UChar8, Value: uint8(j)})
				}
				p := padBlocks(frameBytes(items, true, 1, 2))
				if got := readChunksSeq(identityMode{}, [][]byte{p}, false)[0]; got != "ok "+msgsString(ms) {
					bad[w] = got
				}
			}
		}(w)
	}
	wgc.Wait()
	prop := "pass"
	for _, b := range bad {
		if b != "" {
			prop = "FAIL * decoding on several goroutines at once gives another result: " + trunc(b, 100)
		}
	}
	cw.add("skip", "skip", "N "+stream+" concurrent-unknown-tags", prop)
}
