package main

import (
	"encoding/json"
	"fmt"
	"github.com/sirupsen/logrus"
	"strconv"
	"strings"
	"sync"
	"time"

	"github.com/spali/go-rscp/rscp"
)

// stream conc (C17): k independent sessions and codec loops on different goroutines at the same time. Each
// goroutine's results are compared with the model's sequential prediction (same op lines as the streams `hist`
// and `enc`/`dec`); the binary is built with -race and any report of the race detector fails the run.

func init() {
	streams["conc"] = func(g *gen, cw *caseWriter, n int, thorough bool) {
		rounds := n
		for round := 0; round < rounds; round++ {
			k := 4 + g.pick(13)
			type out struct{ op, impl, label, prop string }
			results := make([][]out, k)
			// prepare the inputs sequentially (the generator is not shared between goroutines)
			type sess struct {
				user, pw, key string
				calls         []*callSpec
			}
			var sessions []sess
			var trees [][][]rscp.Message
			for i := 0; i < k; i++ {
				if i%2 == 0 {
					s := sess{user: "user" + strconv.Itoa(i), pw: string(g.bytes(1 + g.pick(10))), key: string(g.bytes(1 + g.pick(32)))}
					for c := 0; c < 3+g.pick(4); c++ {
						cs := g.call(c)
						// only behaviours without time-outs: keeps the round fast
						if cs.kind != "D" {
							cs.dialOk, cs.writeOk = true, true
							if cs.auth.model == "X" || cs.auth.model == "F [ ]" {
								cs.auth = frameReply([]rscp.Message{{Tag: rscp.RSCP_AUTHENTICATION, DataType: rscp.UChar8, Value: uint8(10)}})
							}
							if cs.user.model == "X" || cs.user.model == "F [ ]" {
								cs.user = frameReply(replyFor(cs.reqs, c))
							}
							// include unknown tags in replies: the decoder logs a warning for them (shared logger)
							if cs.user.beh.kind == "ok" && g.chance(0.5) {
								rep := append(replyFor(cs.reqs, c), rscp.Message{Tag: rscp.Tag(0x7f800000 | uint32(g.pick(1000))), DataType: rscp.UChar8, Value: uint8(1)})
								cs.user = frameReply(rep)
							}
						}
						s.calls = append(s.calls, cs)
					}
					sessions = append(sessions, s)
					trees = append(trees, nil)
				} else {
					var ts [][]rscp.Message
					for c := 0; c < 6+g.pick(10); c++ {
						ts = append(ts, g.tree())
					}
					// short strings of equal length and equal CRC-32, one per codec loop (and both in one frame)
					pair := []string{"plumless", "buckeroo"}
					ts = append(ts, []rscp.Message{{Tag: rscp.INFO_SERIAL_NUMBER, DataType: rscp.CString, Value: pair[(i/2)%2]}},
						[]rscp.Message{{Tag: rscp.INFO_SERIAL_NUMBER, DataType: rscp.CString, Value: pair[(i/2+1)%2]}, {Tag: rscp.INFO_PRODUCTION_DATE, DataType: rscp.CString, Value: pair[(i/2)%2]}})
					sessions = append(sessions, sess{key: string(g.bytes(1 + g.pick(32)))})
					trees = append(trees, ts)
				}
			}
			now := time.Unix(1700000000, 42).UTC()
			rscp.Now = func() time.Time { return now }
			// the shared logger is at "warning" during the round (output discarded): authentications lower it for a moment
			// and put it back — afterwards it is what it was
			lvlBefore := rscp.Log.GetLevel()
			rscp.Log.SetLevel(logrus.WarnLevel)
			// one prepared request list handed to every goroutine (a poll request kept in a package-level variable): the send
			// path only reads it. It has an item whose data type was left out, top level and nested
			sharedReqs := []rscp.Message{{Tag: rscp.INFO_REQ_UTC_TIME, DataType: rscp.None},
				{Tag: rscp.BAT_REQ_DATA, DataType: rscp.Container, Value: []rscp.Message{{Tag: rscp.BAT_INDEX, Value: uint16(round)}, {Tag: rscp.BAT_REQ_RSOC, DataType: rscp.None}}},
				{Tag: rscp.EMS_REQ_SET_ERROR_BUZZER_ENABLED, Value: true}}
			sharedBefore := fmt.Sprintf("%#v", sharedReqs)
			sharedRes := make([]string, k)
			var wg sync.WaitGroup
			start := make(chan struct{})
			for i := 0; i < k; i++ {
				wg.Add(1)
				go func(i int) {
					defer wg.Done()
					<-start
					func() {
						defer func() {
							if r := recover(); r != nil {
								sharedRes[i] = "panic"
							}
						}()
						sharedRes[i] = fmt.Sprint(rscp.VerifValidateRequests(sharedReqs))
					}()
					if i%2 == 0 {
						sp := sessions[i]
						s, err := newSession(sp.user, sp.pw, sp.key, 150*time.Millisecond, 1)
						if err != nil {
							return
						}
						var ops, res []string
						prop := "pass"
						for c, cs := range sp.calls {
							r := s.call(cs)
							ops = append(ops, cs.op())
							res = append(res, r)
							if strings.HasPrefix(r, "ok ") && cs.kind != "D" && cs.user.beh.kind == "ok" {
								if !strings.Contains(r, hexOf([]byte(fmt.Sprintf("reply-%d-to-nonce-%d-0", c, c)))) {
									prop = "FAIL C17 a session received a reply that is not its own: " + trunc(r, 120)
								}
							}
						}
						s.close()
						results[i] = append(results[i], out{fmt.Sprintf("hist %s %s | %s", hexOf([]byte(sp.user)), hexOf([]byte(sp.pw)), strings.Join(ops, " | ")),
							strings.Join(res, " | "), fmt.Sprintf("N conc session goroutines=%d", k), prop})
					} else {
						enc, dec := cbcPair(sessions[i].key)
						rec := &recorder{BlockMode: enc}
						var mode = rec
						for _, tree := range trees[i] {
							var bm interface {
								BlockSize() int
								CryptBlocks(dst, src []byte)
							} = mode
							_ = bm
							ct, err := writeWith(rec, tree)
							if err != nil {
								continue
							}
							plain := rec.plain[len(rec.plain)-1]
							got := readOnce(dec, ct)
							prop := "pass"
							if got != "ok "+msgsString(tree) {
								prop = "FAIL C17 a codec loop decoded something else than it encoded while others were running"
							}
							results[i] = append(results[i], out{fmt.Sprintf("enc 1 %d %d %s", now.Unix(), now.Nanosecond(), msgsString(tree)), "ok " + hexOf(plain),
								fmt.Sprintf("%s conc codec goroutines=%d", nt(nontrivialTree(tree)), k), prop})
						}
					}
				}(i)
			}
			close(start)
			wg.Wait()
			rscp.Now = time.Now
			if l := rscp.Log.GetLevel(); l != logrus.WarnLevel {
				cw.add("skip", "skip", "N conc logger-level", fmt.Sprintf("FAIL C17 after concurrent sessions the shared logger level is %v, it was set to warning", l))
			}
			rscp.Log.SetLevel(lvlBefore)
			{
				prop := "pass"
				if after := fmt.Sprintf("%#v", sharedReqs); after != sharedBefore {
					prop = "FAIL C17 a request list shared by concurrent callers is modified by validating it: " + trunc(after, 200)
				}
				for i := 1; i < k; i++ {
					if sharedRes[i] != sharedRes[0] && prop == "pass" {
						prop = fmt.Sprintf("FAIL C17 concurrent callers validating the same request list get different answers: %q and %q", trunc(sharedRes[0], 80), trunc(sharedRes[i], 80))
					}
				}
				cw.add("skip", "skip", "N conc shared-request", prop)
			}
			for i := 0; i < k; i++ {
				for _, o := range results[i] {
					cw.add(o.op, o.impl, o.label, o.prop)
				}
			}
		}
		// several clients whose devices all close the connection at the authentication, at the same moment; and goroutines
		// that read requests from JSON text at the same time (numbers of the same data types): results as when alone
		{
			k := 6
			res := make([]string, k)
			var wg3 sync.WaitGroup
			start3 := make(chan struct{})
			for i := 0; i < k; i++ {
				wg3.Add(1)
				go func(i int) {
					defer wg3.Done()
					s, err := newSession(fmt.Sprintf("eofuser%d", i), "pw", fmt.Sprintf("eofkey%d", i), 300*time.Millisecond, 1)
					if err != nil {
						return
					}
					c := &callSpec{kind: "S", dialOk: true, writeOk: true, reqs: []rscp.Message{{Tag: rscp.INFO_REQ_UTC_TIME, DataType: rscp.None}},
						auth: replySpec{behaviour{kind: "closeBefore"}, "X"}, user: replySpec{behaviour{kind: "closeBefore"}, "X"}}
					<-start3
					res[i] = s.call(c) + " | " + s.call(c)
					s.close()
				}(i)
			}
			close(start3)
			wg3.Wait()
			prop := "pass"
			for _, r := range res {
				if !strings.HasPrefix(r, "err io") {
					prop = "FAIL C17 clients whose devices close at the authentication: " + trunc(r, 100)
				}
			}
			cw.add("skip", "skip", "N conc auth-eof-together", prop)
			texts := []string{`{"Tag":"EMS_REQ_SET_POWER_VALUE","DataType":"Int32","Value":%d}`, `{"Tag":"BAT_INDEX","DataType":"UInt16","Value":%d}`,
				`{"Tag":12345,"DataType":"Double64","Value":%d.5}`, `{"Tag":12346,"DataType":"ByteArray","Value":[%d,2,3]}`, `{"Tag":12347,"DataType":"Uint64","Value":%d}`}
			bad := make([]string, 8)
			var wg4 sync.WaitGroup
			for w := 0; w < 8; w++ {
				wg4.Add(1)
				go func(w int) {
					defer wg4.Done()
					for round := 0; round < 400; round++ {
						v := (w*1000 + round) % 250
						for ti, t := range texts {
							var m rscp.Message
							js := fmt.Sprintf(t, v)
							if err := json.Unmarshal([]byte(js), &m); err != nil {
								bad[w] = "error " + err.Error() + " for " + js
								continue
							}
							want := fmt.Sprint(v)
							got := ""
							switch x := m.Value.(type) {
							case int32:
								got = fmt.Sprint(x)
							case uint16:
								got = fmt.Sprint(x)
							case float64:
								got = fmt.Sprint(int(x))
							case []byte:
								got = fmt.Sprint(x[0])
							case uint64:
								got = fmt.Sprint(x)
							}
							if got != want {
								bad[w] = fmt.Sprintf("text %d: %s was read as %v", ti, js, m.Value)
							}
						}
					}
				}(w)
			}
			wg4.Wait()
			prop = "pass"
			for _, b := range bad {
				if b != "" {
					prop = "FAIL C17 JSON requests read concurrently: " + trunc(b, 160)
				}
			}
			cw.add("skip", "skip", "N conc json-readers", prop)
		}
		// goroutines that decode frames the decoder refuses (a fixed-size item with a wrong length, an undefined type, a bad
		// checksum) while other goroutines run sessions that authenticate again and again (connect, call, disconnect)
		{
			stop := make(chan struct{})
			var wgd sync.WaitGroup
			badFrames := [][]byte{padBlocks(frameBytes(itemBytes(0x00800001, 1, []byte{1, 0}), true, 1, 2)), padBlocks(frameBytes(itemBytes(0x00800001, 0x11, nil), true, 1, 2)),
				padBlocks(frameBytes(itemBytes(0x00800001, 6, []byte{1}), false, 1, 2)), padBlocks(frameBytes(itemBytes(0x7f800001, 3, []byte{1}), true, 1, 2))}
			wantBad := make([]string, len(badFrames))
			for k, p := range badFrames {
				wantBad[k] = readOnce(identityMode{}, p)
			}
			derr := make([]string, 4)
			for w := 0; w < 4; w++ {
				wgd.Add(1)
				go func(w int) {
					defer wgd.Done()
					for {
						select {
						case <-stop:
							return
						default:
						}
						for k, p := range badFrames {
							if got := readChunksSeq(identityMode{}, [][]byte{p}, false)[0]; got != wantBad[k] {
								derr[w] = got
							}
						}
					}
				}(w)
			}
			serr := make([]string, 4)
			var wgs sync.WaitGroup
			for w := 0; w < 4; w++ {
				wgs.Add(1)
				go func(w int) {
					defer wgs.Done()
					s, err := newSession(fmt.Sprintf("mixuser%d", w), "pw", fmt.Sprintf("mixkey%d", w), 300*time.Millisecond, 1)
					if err != nil {
						return
					}
					grant := frameReply([]rscp.Message{{Tag: rscp.RSCP_AUTHENTICATION, DataType: rscp.UChar8, Value: uint8(10)}})
					for k := 0; k < 12; k++ {
						c := &callSpec{kind: "S", dialOk: true, writeOk: true, reqs: []rscp.Message{{Tag: rscp.INFO_REQ_UTC_TIME, DataType: rscp.None}}, auth: grant}
						c.user = frameReply([]rscp.Message{{Tag: rscp.INFO_UTC_TIME, DataType: rscp.UChar8, Value: uint8(k)}})
						if r := s.call(c); !strings.HasPrefix(r, "ok ") {
							serr[w] = r
						}
						s.call(&callSpec{kind: "D"})
					}
					s.close()
				}(w)
			}
			wgs.Wait()
			close(stop)
			wgd.Wait()
			prop := "pass"
			for _, e := range append(derr, serr...) {
				if e != "" {
					prop = "FAIL C17 decoding refused frames beside authenticating sessions: " + trunc(e, 120)
				}
			}
			cw.add("skip", "skip", "N conc refused-frames-beside-authentications", prop)
		}
		// clients created concurrently, each with its own key
		{
			var wg5 sync.WaitGroup
			errs := make([]string, 8)
			for w := 0; w < 8; w++ {
				wg5.Add(1)
				go func(w int) {
					defer wg5.Done()
					defer func() {
						if r := recover(); r != nil {
							errs[w] = fmt.Sprint("panic: ", r)
						}
					}()
					for k := 0; k < 400; k++ {
						key := fmt.Sprintf("key-%d-%d", w, k)
						cl, err := rscp.NewClient(rscp.ClientConfig{Address: "h", Username: "u", Password: "p", Key: key})
						if err != nil || cl == nil {
							errs[w] = fmt.Sprint("NewClient fails: ", err)
							return
						}
						if got := rscp.VerifCreateAESKey(key); string(got[:len(key)]) != key {
							errs[w] = "key derivation differs"
						}
					}
				}(w)
			}
			wg5.Wait()
			prop := "pass"
			for _, e := range errs {
				if e != "" {
					prop = "FAIL C17 clients created concurrently: " + trunc(e, 120)
				}
			}
			cw.add("skip", "skip", "N conc newclient-together", prop)
		}
		// clients over real TCP, each with its own device and its own connection time-out, connecting and reconnecting at
		// the same time (the race detector watches; every reply has to be the client's own)
		{
			type tres struct{ op, impl, prop string }
			k := 6
			out := make([]tres, k)
			var sess []*tcpSession
			var calls [][]*callSpec
			for i := 0; i < k; i++ {
				tcpConnTimeout = []time.Duration{2 * time.Second, 5 * time.Second, 4 * time.Second, 3 * time.Second, 0, 2500 * time.Millisecond}[i]
				if i%2 == 1 {
					tcpHost = "localhost" // every other client names its device instead of giving the address
				}
				ts, err := newTCPSession(fmt.Sprintf("tcpuser%d", i), "pw", fmt.Sprintf("tcpkey%d", i))
				tcpConnTimeout, tcpHost = 2*time.Second, ""
				if err != nil {
					sess = append(sess, nil)
					calls = append(calls, nil)
					continue
				}
				grant := frameReply([]rscp.Message{{Tag: rscp.RSCP_AUTHENTICATION, DataType: rscp.UChar8, Value: uint8(10)}})
				var cs []*callSpec
				for c := 0; c < 6; c++ {
					if c%2 == 1 {
						cs = append(cs, &callSpec{kind: "D"})
						continue
					}
					q := &callSpec{kind: "S", dialOk: true, writeOk: true, reqs: g.nonceRequest(c), auth: grant}
					q.user = frameReply(replyFor(q.reqs, c))
					cs = append(cs, q)
				}
				sess = append(sess, ts)
				calls = append(calls, cs)
			}
			var wg2 sync.WaitGroup
			for i := 0; i < k; i++ {
				if sess[i] == nil {
					continue
				}
				wg2.Add(1)
				go func(i int) {
					defer wg2.Done()
					var ops, res []string
					prop := "pass"
					for c, q := range calls[i] {
						r := sess[i].call(q)
						ops = append(ops, q.op())
						res = append(res, r)
						if q.kind != "D" && !strings.HasPrefix(r, "ok "+msgsString(replyFor(q.reqs, c))+" @") {
							prop = "FAIL C17 a client with its own device got " + trunc(r, 100) + " while others were connecting"
						}
					}
					sess[i].close()
					out[i] = tres{fmt.Sprintf("hist %s %s | %s", hexOf([]byte(fmt.Sprintf("tcpuser%d", i))), hexOf([]byte("pw")), strings.Join(ops, " | ")), strings.Join(res, " | "), prop}
				}(i)
			}
			wg2.Wait()
			for _, o := range out {
				if o.op != "" {
					cw.add(o.op, o.impl, "N conc tcp-clients", o.prop)
				}
			}
		}
		// independence in time: a client that waits for a slow device (authentication answered after 1.5 s, or a request
		// answered after 1.5 s) must not hold up another client whose own device answers at once
		for _, where := range []string{"authentication", "request"} {
			prop := "pass"
			var took time.Duration
			for attempt := 0; attempt < 2; attempt++ {
				grant := frameReply([]rscp.Message{{Tag: rscp.RSCP_AUTHENTICATION, DataType: rscp.UChar8, Value: uint8(10)}})
				slowCall := &callSpec{kind: "S", dialOk: true, writeOk: true, reqs: g.nonceRequest(0), auth: grant}
				slowCall.user = frameReply(replyFor(slowCall.reqs, 0))
				if where == "authentication" {
					slowCall.auth.beh.kind, slowCall.auth.beh.k = "slow", 1500
				} else {
					slowCall.user.beh.kind, slowCall.user.beh.k = "slow", 1500
				}
				fastCall := &callSpec{kind: "S", dialOk: true, writeOk: true, reqs: g.nonceRequest(1), auth: grant}
				fastCall.user = frameReply(replyFor(fastCall.reqs, 1))
				a, errA := newSession("slowuser", "pw", "slowkey", 3*time.Second, 1)
				b, errB := newSession("fastuser", "pw", "fastkey", 3*time.Second, 1)
				if errA != nil || errB != nil {
					break
				}
				doneA := make(chan string, 1)
				go func() { doneA <- a.call(slowCall) }()
				time.Sleep(200 * time.Millisecond)
				t0 := time.Now()
				rb := b.call(fastCall)
				took = time.Since(t0)
				ra := <-doneA
				a.close()
				b.close()
				prop = "pass"
				if !strings.HasPrefix(rb, "ok ") || !strings.HasPrefix(ra, "ok ") {
					prop = "FAIL C17 two clients with their own devices: " + trunc(ra, 60) + " / " + trunc(rb, 60)
				} else if took > 900*time.Millisecond {
					prop = fmt.Sprintf("FAIL C17 a client whose device answers at once was held up for %v while another client waited for its own slow device (%s)", took.Round(time.Millisecond), where)
				}
				if prop == "pass" {
					break
				}
			}
			cw.add("skip", "skip", fmt.Sprintf("N conc slow-%s took=%dms", where, took.Milliseconds()), prop)
		}
	}
}
