package main

import (
	"encoding/binary"
	"errors"
	"fmt"
	"io"
	"math"
	"net"
	"os"
	"strconv"
	"strings"
	"sync"
	"time"

	"github.com/spali/go-rscp/rscp"
)

// independent encoder for reply items (peer side)
func encItems(ms []rscp.Message) []byte {
	var out []byte
	for _, m := range ms {
		var v []byte
		switch x := m.Value.(type) {
		case nil:
		case bool:
			if x {
				v = []byte{1}
			} else {
				v = []byte{0}
			}
		case int8:
			v = []byte{byte(x)}
		case uint8:
			v = []byte{x}
		case int16:
			v = binary.LittleEndian.AppendUint16(nil, uint16(x))
		case uint16:
			v = binary.LittleEndian.AppendUint16(nil, x)
		case int32:
			v = binary.LittleEndian.AppendUint32(nil, uint32(x))
		case uint32:
			v = binary.LittleEndian.AppendUint32(nil, x)
		case int64:
			v = binary.LittleEndian.AppendUint64(nil, uint64(x))
		case uint64:
			v = binary.LittleEndian.AppendUint64(nil, x)
		case float32:
			v = binary.LittleEndian.AppendUint32(nil, math.Float32bits(x))
		case float64:
			v = binary.LittleEndian.AppendUint64(nil, math.Float64bits(x))
		case rscp.RscpError:
			v = binary.LittleEndian.AppendUint32(nil, uint32(x))
		case string:
			v = []byte(x)
		case []byte:
			v = x
		case time.Time:
			v = binary.LittleEndian.AppendUint64(nil, uint64(x.Unix()))
			v = binary.LittleEndian.AppendUint32(v, uint32(x.Nanosecond()))
		case []rscp.Message:
			v = encItems(x)
		}
		out = append(out, itemBytes(uint32(m.Tag), byte(m.DataType), v)...)
	}
	return out
}

type replySpec struct {
	beh   behaviour
	model string // the Reply token for the Lean model
}

type callSpec struct {
	kind    string // S | s | D
	dialOk  bool
	writeOk bool
	auth    replySpec
	user    replySpec
	reqs    []rscp.Message
}

func (c callSpec) op() string {
	if c.kind == "D" {
		return "D"
	}
	b := func(x bool) string {
		if x {
			return "1"
		}
		return "0"
	}
	return fmt.Sprintf("%s %s %s %s %s %s", c.kind, b(c.dialOk), b(c.writeOk), c.auth.model, c.user.model, msgsString(c.reqs))
}

func clientErrClass(err error) string {
	c := errClass(err)
	if c == "eof" {
		return "io" // the peer closed the connection
	}
	if c != "other" {
		return c
	}
	var ne net.Error
	switch {
	case errors.As(err, &ne), errors.Is(err, io.ErrClosedPipe), errors.Is(err, os.ErrDeadlineExceeded), errors.Is(err, net.ErrClosed):
		return "io"
	case strings.HasPrefix(err.Error(), "authentication failed"):
		return "auth"
	}
	return "other:" + err.Error()
}

// session runs a history of calls on one client against the scripted peer over in-memory pipes.
// Returns, per call, "<result> @ <events>".
type session struct {
	cl      *rscp.Client
	p       *peer
	cur     *callSpec
	conns   int
	server  net.Conn // peer side of the current pipe
	authTag uint32
}

// sessionUseChecksum is the UseChecksum option of the sessions created next (nil = default); the option governs what the
// client sends, never what it accepts, so histories are the same for every setting
var sessionUseChecksum interface{}

func newSession(user, password, key string, rcvTimeout time.Duration, bufBlocks uint16) (s *session, err error) {
	defer func() {
		if r := recover(); r != nil {
			s, err = nil, fmt.Errorf("NewClient panics")
		}
	}()
	cl, err := rscp.NewClient(rscp.ClientConfig{Address: "127.0.0.1", Port: 1, Username: user, Password: password, Key: key,
		ConnectionTimeout: 300 * time.Millisecond, SendTimeout: 300 * time.Millisecond, ReceiveTimeout: rcvTimeout, ReceiveBufferBlockSize: bufBlocks,
		HeartbeatInterval: time.Second + 1, UseChecksum: sessionUseChecksum})
	if err != nil {
		return nil, err
	}
	s = &session{cl: cl, p: newPeer(key), authTag: uint32(rscp.RSCP_REQ_AUTHENTICATION)}
	s.p.decide = func(conn int, f peerFrame) behaviour {
		if s.cur == nil {
			return behaviour{kind: "closeBefore"}
		}
		if strings.HasPrefix(f.text, fmt.Sprintf("[ M %d ", s.authTag)) {
			return s.cur.auth.beh
		}
		return s.cur.user.beh
	}
	return s, nil
}

func (s *session) call(c *callSpec) (res string) {
	s.p.mu.Lock()
	s.cur = c
	nBefore := len(s.p.frames)
	s.p.mu.Unlock()
	connBefore, _ := s.cl.VerifState()
	connNoBefore := s.conns - 1
	var events []string
	if c.kind == "D" {
		switch disconnectBounded(s.cl) {
		case "panic":
			res = "panic"
		case "hang":
			res = "hang"
		default:
			res = "ok [ ]"
		}
	} else {
		if !connBefore {
			if c.dialOk {
				a, b := net.Pipe()
				s.server = b
				s.cl.VerifAttachConn(a)
				s.p.wg.Add(1)
				go s.p.serve(s.conns, b)
				s.conns++
				events = append(events, "dial1")
			} else {
				events = append(events, "dial0")
			}
		}
		if !c.writeOk && s.server != nil {
			s.server.Close()
			time.Sleep(5 * time.Millisecond)
		}
		done := make(chan string, 1)
		go func() {
			defer func() {
				if r := recover(); r != nil {
					done <- "panic"
				}
			}()
			if c.kind == "s" {
				m, err := s.cl.Send(c.reqs[0])
				if err != nil {
					done <- "err " + clientErrClass(err)
				} else {
					done <- "ok " + msgsString([]rscp.Message{*m})
				}
			} else {
				before := msgsString(c.reqs)
				ms, err := s.cl.SendMultiple(c.reqs)
				if after := msgsString(c.reqs); after != before {
					done <- "modified-requests " + trunc(after, 100)
				} else if err != nil {
					done <- "err " + clientErrClass(err)
				} else {
					retain(ms, "ok "+msgsString(ms))
					done <- "ok " + msgsString(ms)
				}
			}
		}()
		select {
		case res = <-done:
		case <-time.After(15 * time.Second):
			res = "hang"
		}
	}
	// a peer that answers late does so now that the call is over
	for _, b := range []behaviour{c.auth.beh, c.user.beh} {
		if b.kind == "late" && b.after != nil {
			func() {
				defer func() { recover() }()
				close(b.after)
			}()
			time.Sleep(3 * time.Millisecond)
		}
	}
	connAfter, _ := s.cl.VerifState()
	s.p.mu.Lock()
	for _, f := range s.p.frames[nBefore:] {
		events = append(events, fmt.Sprintf("sent %d %s", f.conn, f.text))
	}
	s.p.mu.Unlock()
	hadConn := connBefore || (c.kind != "D" && c.dialOk && !connBefore)
	if hadConn && !connAfter {
		n := connNoBefore
		if !connBefore {
			n = s.conns - 1
		}
		events = append(events, fmt.Sprintf("closed %d", n))
		s.server = nil
	}
	return res + " @ " + strings.Join(events, " , ")
}

func (s *session) close() {
	disconnectBounded(s.cl)
	if s.server != nil {
		s.server.Close()
	}
	waitBounded(&s.p.wg)
}

// disconnectBounded calls Disconnect and gives up after five seconds (a client that blocks on itself must not block
// the harness): "ok", "panic" or "hang"
func disconnectBounded(cl *rscp.Client) string {
	done := make(chan string, 1)
	go func() {
		defer func() {
			if r := recover(); r != nil {
				done <- "panic"
			}
		}()
		cl.Disconnect()
		done <- "ok"
	}()
	select {
	case r := <-done:
		return r
	case <-time.After(5 * time.Second):
		return "hang"
	}
}

// waitBounded waits for the peer's goroutines, but not for ever
func waitBounded(wg *sync.WaitGroup) {
	done := make(chan struct{})
	go func() { wg.Wait(); close(done) }()
	select {
	case <-done:
	case <-time.After(5 * time.Second):
	}
}

// ---- generators of scripts ------------------------------------------------------------------

func (g *gen) nonceRequest(i int) []rscp.Message {
	n := 1 + g.pick(2)
	var ms []rscp.Message
	for k := 0; k < n; k++ {
		ms = append(ms, rscp.Message{Tag: rscp.Tag(0x01000000 | uint32(g.pick(1<<16))), DataType: rscp.CString, Value: "nonce-" + strconv.Itoa(i) + "-" + strconv.Itoa(k)})
	}
	if g.chance(0.3) {
		ms = append(ms, rscp.Message{Tag: rscp.INFO_REQ_UTC_TIME, DataType: rscp.None})
	}
	return ms
}

func replyFor(reqs []rscp.Message, i int) []rscp.Message {
	var ms []rscp.Message
	for _, r := range reqs {
		v, _ := r.Value.(string)
		ms = append(ms, rscp.Message{Tag: r.Tag | (1 << 23), DataType: rscp.CString, Value: fmt.Sprintf("reply-%d-to-%s", i, v)})
	}
	return ms
}

func frameReply(ms []rscp.Message) replySpec {
	return replySpec{beh: behaviour{kind: "ok", items: encItems(ms)}, model: "F " + msgsString(ms)}
}

// the same reply written by the peer in pieces that are not whole cipher blocks
func (g *gen) piecewise(r replySpec) replySpec {
	if r.beh.kind == "ok" && g.chance(0.3) {
		a := 1 + g.pick(60)
		r.beh.cuts = []int{a, a + 1 + g.pick(40)}
	}
	return r
}

func (g *gen) authReply() replySpec {
	grant := []rscp.Message{{Tag: rscp.RSCP_AUTHENTICATION, DataType: rscp.UChar8, Value: uint8(10)}}
	switch g.pick(14) {
	case 12, 13:
		// any tag of the authentication family with any data type and value
		tg := []rscp.Tag{rscp.RSCP_GENERAL_ERROR, rscp.RSCP_AUTHENTICATION, rscp.RSCP_USER_LEVEL, rscp.RSCP_REQ_AUTHENTICATION, 0x00800099}[g.pick(5)]
		dt := definedTypes[g.pick(len(definedTypes))]
		vs := authValues(dt)
		var v interface{}
		if len(vs) > 0 {
			v = vs[g.pick(len(vs))]
		}
		return frameReply([]rscp.Message{{Tag: tg, DataType: dt, Value: v}})
	case 0:
		return frameReply([]rscp.Message{{Tag: rscp.RSCP_AUTHENTICATION, DataType: rscp.UChar8, Value: uint8(0)}})
	case 1:
		return frameReply([]rscp.Message{{Tag: rscp.RSCP_AUTHENTICATION, DataType: rscp.Int32, Value: int32(0)}})
	case 2:
		return frameReply([]rscp.Message{{Tag: rscp.RSCP_AUTHENTICATION, DataType: rscp.Int32, Value: int32(10)}})
	case 3:
		return g.failReply(grant)
	}
	return frameReply(grant)
}

func (g *gen) failReply(ms []rscp.Message) replySpec {
	items := encItems(ms)
	switch g.pick(15) {
	case 14:
		return replySpec{behaviour{kind: "wrongLength"}, "P dataLimit 0"}
	case 13:
		return replySpec{behaviour{kind: "badCrcThenFrame", items: items}, "P invalidCrc 1 " + msgsString(ms)}
	case 10:
		return replySpec{behaviour{kind: "stallInside", k: 100 + []int{0, 1, 10, 31, 32, 33, 40, 63}[g.pick(8)], items: items}, "X"}
	case 11:
		return replySpec{behaviour{kind: "partialThenServe", k: 100 + []int{1, 10, 31, 33, 40, 63}[g.pick(6)], items: items}, "X"}
	case 9:
		return replySpec{behaviour{kind: "badCrcOnce", items: items, once: new(int)}, "P invalidCrc 0"}
	case 8:
		return replySpec{behaviour{kind: "late", items: items, after: make(chan struct{})}, "X"}
	case 0:
		return replySpec{behaviour{kind: "silent"}, "X"}
	case 1:
		return replySpec{behaviour{kind: "closeBefore"}, "X"}
	case 2:
		if g.chance(0.5) {
			return replySpec{behaviour{kind: "closeInside", k: 101 + g.pick(62), items: items}, "X"}
		}
		return replySpec{behaviour{kind: "closeInside", k: g.pick(3), items: items}, "X"}
	case 3:
		return replySpec{behaviour{kind: "garbled", k: 0, items: items}, "P invalidMagic 0"}
	case 4:
		return replySpec{behaviour{kind: "garbled", k: 1000, items: items}, "P invalidMagic 1 " + msgsString(ms)}
	case 5:
		return replySpec{behaviour{kind: "badCrc", items: items}, "P invalidCrc 0"}
	case 6:
		return replySpec{behaviour{kind: "malformed", items: itemBytes(1, 0x11, nil)}, "P invalidDataType 0"}
	}
	return replySpec{behaviour{kind: "empty"}, "F [ ]"}
}

func (g *gen) call(i int) *callSpec {
	if g.chance(0.12) {
		return &callSpec{kind: "D"}
	}
	c := &callSpec{kind: "S", dialOk: !g.chance(0.08), writeOk: !g.chance(0.06)}
	c.reqs = g.nonceRequest(i)
	if g.chance(0.35) {
		c.kind = "s"
		c.reqs = c.reqs[:1]
	}
	if c.writeOk && g.chance(0.07) {
		// a request the client must refuse (never combined with a dead connection: the write would not be attempted)
		switch g.pick(3) {
		case 0:
			c.reqs[0].Tag |= 1 << 23
		case 1:
			c.reqs[0].Value = 5
		default:
			c.reqs[0].DataType = rscp.DataType(0x11 + g.pick(100))
		}
	}
	c.auth = g.authReply()
	rep := replyFor(c.reqs, i)
	if g.chance(0.3) {
		c.user = g.failReply(rep)
	} else {
		c.user = g.piecewise(frameReply(rep))
	}
	return c
}

func init() {
	streams["hist"] = func(g *gen, cw *caseWriter, n int, thorough bool) {
		// an established, authenticated connection idles longer than the heartbeat interval; then the peer takes a request
		// and closes without answering; then it is healthy again. (Run side by side: each idles 1.1 s.)
		{
			type idleRes struct{ op, impl, prop string }
			results := make([]idleRes, 3)
			var wg sync.WaitGroup
			specs := make([][]*callSpec, 3)
			for j := range specs {
				grant := frameReply([]rscp.Message{{Tag: rscp.RSCP_AUTHENTICATION, DataType: rscp.UChar8, Value: uint8(10)}})
				for k := 0; k < 3; k++ {
					c := &callSpec{kind: []string{"S", "s"}[g.pick(2)], dialOk: true, writeOk: true, reqs: g.nonceRequest(k)[:1], auth: grant}
					c.user = frameReply(replyFor(c.reqs, k))
					if k == 1 {
						c.user = replySpec{behaviour{kind: []string{"closeBefore", "closeInside"}[j%2], k: 0, items: encItems(replyFor(c.reqs, k))}, "X"}
					}
					specs[j] = append(specs[j], c)
				}
			}
			for j := 0; j < 3; j++ {
				wg.Add(1)
				go func(j int) {
					defer wg.Done()
					s, err := newSession("idleuser", "idlepw", "idlekey", 150*time.Millisecond, 1)
					if err != nil {
						return
					}
					var ops, res []string
					prop := "pass"
					for k, c := range specs[j] {
						if k == 1 {
							time.Sleep(1100 * time.Millisecond)
						}
						r := s.call(c)
						ops = append(ops, c.op())
						res = append(res, r)
						if n := strings.Count(r, "sent "); n > 2 || (n == 2 && !strings.Contains(r, fmt.Sprintf("[ M %d ", s.authTag))) {
							prop = "FAIL C08 a request reached the peer more than once in one call (after an idle period): " + trunc(r, 160)
						}
						if k == 1 && strings.HasPrefix(r, "ok") {
							prop = "FAIL C08 a call whose request was never answered returns success: " + trunc(r, 120)
						}
					}
					s.close()
					results[j] = idleRes{fmt.Sprintf("hist %s %s | %s", hexOf([]byte("idleuser")), hexOf([]byte("idlepw")), strings.Join(ops, " | ")), strings.Join(res, " | "), prop}
				}(j)
			}
			wg.Wait()
			for _, r := range results {
				if r.op != "" {
					cw.add(r.op, r.impl, "N hist idle-then-unanswered", r.prop)
				}
			}
		}
		for i := 0; i < n; i++ {
			user, pw := "user"+strconv.Itoa(g.pick(100)), string(g.bytes(1+g.pick(12)))
			key := string(g.bytes(1 + g.pick(40)))
			user, pw, key = g.edgeCredentials(i, user, pw, key)
			sessionUseChecksum = nil
			if i%4 == 2 {
				sessionUseChecksum = false
			}
			s, err := newSession(user, pw, key, 120*time.Millisecond, uint16(1+g.pick(3)))
			sessionUseChecksum = nil
			// every fifth session runs with the package's clock hook (it stamps frames) an hour off, forwards or backwards:
			// nothing but the time stamp inside the frames may depend on it
			if i%5 == 3 {
				skew := time.Hour
				if i%10 == 3 {
					skew = -time.Hour
				}
				rscp.Now = func() time.Time { return time.Now().Add(skew) }
			}
			if err != nil {
				continue
			}
			depth := 2 + g.pick(6)
			if thorough && g.chance(0.2) {
				depth = 8 + g.pick(6)
			}
			var ops, res []string
			prop := "pass"
			brokenBefore := false    // the previous call failed with a transport/protocol error, or was a disconnect
			idleSession := i%50 == 7 // one session in fifty idles longer than the (smallest possible) heartbeat interval once
			for k := 0; k < depth; k++ {
				c := g.call(k)
				if idleSession && k == 2 {
					// on an established connection: idle, then the peer takes the request and closes before answering
					if conn, authed := s.cl.VerifState(); conn && authed && c.kind != "D" && rscp.VerifValidateRequests(c.reqs) == nil {
						c.dialOk, c.writeOk = true, true
						c.user = replySpec{behaviour{kind: "closeBefore"}, "X"}
						time.Sleep(1100 * time.Millisecond)
					}
				}
				r := s.call(c)
				// every request reaches the peer at most once
				if c.kind != "D" {
					if n := strings.Count(r, "sent "); n > 2 || (n == 2 && !strings.Contains(r, fmt.Sprintf("[ M %d ", s.authTag))) {
						prop = "FAIL C08 a request reached the peer more than once in one call: " + trunc(r, 160)
					}
				}
				healthy := c.kind != "D" && c.dialOk && c.writeOk && c.auth.beh.kind == "ok" && strings.HasPrefix(c.auth.model, "F [ M 8388609 3 n u8 10") &&
					c.user.beh.kind == "ok" && rscp.VerifValidateRequests(c.reqs) == nil
				// a reply with a wrong checksum is never handed to the caller, whatever the client's own checksum option
				if strings.HasPrefix(r, "ok ") && c.kind != "D" {
					authedNow := strings.Contains(r, fmt.Sprintf("[ M %d ", s.authTag))
					if c.user.beh.kind == "badCrc" || c.user.beh.kind == "badCrcOnce" || c.user.beh.kind == "badCrcThenFrame" || (authedNow && (c.auth.beh.kind == "badCrc" || c.auth.beh.kind == "badCrcOnce")) {
						addVerdict(&prop, "FAIL C08 a call whose reply carried a wrong checksum returns success: "+trunc(r, 120)+" ;; FAIL C04 a reply with a wrong checksum is accepted")
					}
				}
				if healthy && !strings.HasPrefix(r, "ok ") && prop == "pass" {
					if brokenBefore {
						prop = "FAIL C08 no recovery: after a failed call / disconnect the next call against a healthy peer gives " + trunc(r, 120)
					} else {
						prop = "FAIL C08 a valid request against a healthy peer fails: " + trunc(r, 120)
					}
					if strings.HasPrefix(r, "err invalid") || strings.HasPrefix(r, "err version") || strings.HasPrefix(r, "err dataLimit") || strings.Contains(r, "undecodable") {
						prop += " ;; FAIL C06 client and peer no longer understand each other although the peer follows the encryption scheme"
					}
				}
				if strings.Contains(r, "undecodable") {
					addVerdict(&prop, "FAIL C06 an independent peer cannot decrypt a frame of the client: "+trunc(r, 140))
				}
				switch {
				case c.kind == "D":
					brokenBefore = true
				case strings.HasPrefix(r, "err io"), strings.HasPrefix(r, "err invalid"), strings.HasPrefix(r, "err dataLimit") && c.user.beh.kind != "ok":
					brokenBefore = true
				default:
					brokenBefore = false
				}
				ops = append(ops, c.op())
				res = append(res, r)
				if strings.HasPrefix(r, "panic") || strings.HasPrefix(r, "hang") {
					prop = "FAIL * client call " + strings.SplitN(r, " ", 2)[0]
				}
				// C08 oracle in Go: a successful user call carries the reply built for this very call
				if strings.HasPrefix(r, "ok ") && c.kind != "D" {
					want := "ok " + msgsString(replyFor(c.reqs, k))
					if c.kind == "s" {
						want = "ok " + msgsString(replyFor(c.reqs, k)[:1])
					}
					if !strings.HasPrefix(r, want+" @") {
						prop = "FAIL C08 call " + strconv.Itoa(k) + " returned a reply that was not produced for it: " + trunc(r, 160)
					}
				}
			}
			s.close()
			rscp.Now = time.Now
			if v := authFirstViolation(res, s.authTag, user, pw); v != "" {
				addVerdict(&prop, "FAIL C09 "+v)
			}
			if ch := retainedChanged(); ch != "" && prop == "pass" {
				prop = "FAIL * " + ch
			}
			for _, r := range res {
				if strings.HasPrefix(r, "modified-requests") {
					prop = "FAIL * SendMultiple modified the caller's requests: " + trunc(r, 120)
				}
			}
			cw.add(fmt.Sprintf("hist %s %s | %s", hexOf([]byte(user)), hexOf([]byte(pw)), strings.Join(ops, " | ")), strings.Join(res, " | "),
				fmt.Sprintf("N hist depth=%d", depth), prop)
		}
	}
}

// edgeCredentials: every third session uses a user name, password or key with white space, line breaks or NUL at its
// ends (or consisting of nothing else): credentials and key travel exactly as configured
func (g *gen) edgeCredentials(i int, user, pw, key string) (string, string, string) {
	if i%3 != 1 {
		return user, pw, key
	}
	edges := []string{"\n", "\r\n", "\r", " ", "\t", "\x00", "\n\n", " \n", "ä", "€uro", "😀", "日本語", "ÄÖÜß"}
	e := edges[g.pick(len(edges))]
	switch g.pick(7) {
	case 0:
		user += e
	case 1:
		pw += e
	case 2:
		key += e
	case 3:
		user, pw = e+user, e+pw
	case 4:
		user, pw, key = user+e, pw+e, key+e
	case 5:
		pw = e
		if g.chance(0.5) {
			key = e // a key that consists of nothing but this
		}
	default:
		key = e + key
	}
	return user, pw, key
}
