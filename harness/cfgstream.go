package main

import (
	"fmt"
	"os"
	"strings"
	"sync"
	"time"

	"github.com/spali/go-rscp/rscp"
)

// stream cfg (C16, key part of C06): ClientConfig.check / NewClient / createAESKey

func csTok(v interface{}) (string, bool) {
	switch x := v.(type) {
	case nil:
		return "U", true
	case bool:
		if x {
			return "T", true
		}
		return "F", true
	}
	return "O", true
}

func cfgRun(c rscp.ClientConfig) string {
	out, err := rscp.VerifCheckConfig(c)
	var res string
	if err != nil {
		msg := err.Error()
		if strings.HasPrefix(msg, "missing config values: ") {
			res = "missing " + strings.ReplaceAll(strings.TrimPrefix(msg, "missing config values: "), ", ", ",")
		} else if strings.Contains(msg, "UseChecksum") {
			res = "badcs"
		} else {
			res = "err-other"
		}
	} else {
		cs, _ := csTok(out.UseChecksum)
		key := rscp.VerifCreateAESKey(out.Key)
		res = fmt.Sprintf("ok %d %d %d %d %d %s %d %s", out.Port, int64(out.HeartbeatInterval), int64(out.ConnectionTimeout),
			int64(out.SendTimeout), int64(out.ReceiveTimeout), cs, out.ReceiveBufferBlockSize, hexOf(key[:]))
	}
	// NewClient must agree with check and must not panic
	nc := func() (s string) {
		defer func() {
			if r := recover(); r != nil {
				s = "panic"
			}
		}()
		cl, e := rscp.NewClient(c)
		if e != nil {
			return "err"
		}
		eff := cl.VerifConfig()
		if eff.ReceiveTimeout != out.ReceiveTimeout || eff.ReceiveBufferBlockSize != out.ReceiveBufferBlockSize || eff.Port != out.Port ||
			eff.SendTimeout != out.SendTimeout || eff.ConnectionTimeout != out.ConnectionTimeout || eff.UseChecksum != out.UseChecksum {
			return "differs"
		}
		if want := fmt.Sprintf("%s:%d", out.Address, out.Port); cl.VerifConnString() != want {
			return "dials-" + cl.VerifConnString()
		}
		return "ok"
	}()
	return res + " ; new=" + nc
}

func cfgCase(cw *caseWriter, c rscp.ClientConfig, label string) {
	got := func() (s string) {
		defer func() {
			if r := recover(); r != nil {
				s = "panic"
			}
		}()
		return cfgRun(c)
	}()
	cs, _ := csTok(c.UseChecksum)
	op := fmt.Sprintf("cfg %s %d %s %s %s %d %d %d %d %s %d", hexOf([]byte(c.Address)), c.Port, hexOf([]byte(c.Username)), hexOf([]byte(c.Password)),
		hexOf([]byte(c.Key)), int64(c.HeartbeatInterval), int64(c.ConnectionTimeout), int64(c.SendTimeout), int64(c.ReceiveTimeout), cs, c.ReceiveBufferBlockSize)
	prop := "pass"
	if strings.Contains(got, "panic") {
		prop = "FAIL * creating a client panics"
	} else if w := cfgExpected(c); w != "" && !strings.HasPrefix(got, w) {
		prop = "FAIL C16 documented outcome is `" + w + "…`, got `" + trunc(got, 100) + "`"
		if strings.Contains(label, "key") {
			prop += " ;; FAIL C06 a legal key (" + fmt.Sprintf("%q", trunc(c.Key, 40)) + ") is not used as configured: " + trunc(got, 80)
		}
	}
	cw.add(op, got, "N cfg "+label, prop)
}

func init() {
	durs := []time.Duration{0, -1, 1, time.Second, 3 * time.Second, -time.Hour, 1<<63 - 1, -1 << 63, 50 * time.Millisecond, time.Second + 1}
	bufs := []uint16{0, 1, 2, 7, 2048, 2049, 2050, 65535}
	ports := []uint16{0, 1, 5033, 65535}
	streams["cfg"] = func(g *gen, cw *caseWriter, n int, thorough bool) {
		// every subset of the required fields × checksum kinds
		for mask := 0; mask < 16; mask++ {
			bt, bf, str := true, false, "x"
			for _, cs := range []interface{}{nil, true, false, "true", 1, 0.5, []byte{1}, struct{}{}, &bt, &bf, &str, (*bool)(nil), (*int)(nil), (*interface{})(nil),
				map[string]bool{}, func() {}, namedBool(true), []interface{}{true}, [1]bool{true}, make(chan bool)} {
				c := rscp.ClientConfig{UseChecksum: cs}
				if mask&1 != 0 {
					c.Address = "host"
				}
				if mask&2 != 0 {
					c.Username = "user"
				}
				if mask&4 != 0 {
					c.Password = "pw"
				}
				if mask&8 != 0 {
					c.Key = "key"
				}
				cfgCase(cw, c, fmt.Sprintf("required-mask=%d cs=%T", mask, cs))
			}
		}
		// the variables the command line tool reads (E3DC_HOST, …) are set in the process: the library takes its configuration
		// from the ClientConfig alone
		for _, kv := range [][2]string{{"E3DC_HOST", "envhost"}, {"E3DC_USER", "envuser"}, {"E3DC_PASSWORD", "envpw"}, {"E3DC_KEY", "envkey"}, {"E3DC_PORT", "1234"}, {"E3DC_DEBUG", "6"}} {
			os.Setenv(kv[0], kv[1])
		}
		for mask := 0; mask < 16; mask++ {
			c := rscp.ClientConfig{}
			if mask&1 != 0 {
				c.Address = "host"
			}
			if mask&2 != 0 {
				c.Username = "user"
			}
			if mask&4 != 0 {
				c.Password = "pw"
			}
			if mask&8 != 0 {
				c.Key = "key"
			}
			cfgCase(cw, c, fmt.Sprintf("required-mask=%d with E3DC_* in the environment", mask))
		}
		for _, k := range []string{"E3DC_HOST", "E3DC_USER", "E3DC_PASSWORD", "E3DC_KEY", "E3DC_PORT", "E3DC_DEBUG"} {
			os.Unsetenv(k)
		}
		// user names, passwords, addresses and keys of unusual but legal shape
		for _, v := range []string{"@", "@home", "a@", "@@", "user@example.org", "@" + strings.Repeat("x", 300), " ", "\t", "\x00", "ä", "😀", "%s", "%!d(string=x)", "a b", "-", "--user", "=", "\\", "\"", "'"} {
			cfgCase(cw, rscp.ClientConfig{Address: "h", Username: v, Password: "p", Key: "k"}, "unusual-user")
			cfgCase(cw, rscp.ClientConfig{Address: "h", Username: "u", Password: v, Key: "k"}, "unusual-password")
			cfgCase(cw, rscp.ClientConfig{Address: v, Username: "u", Password: "p", Key: "k"}, "unusual-address")
			cfgCase(cw, rscp.ClientConfig{Address: "h", Username: "u", Password: "p", Key: v}, "unusual-key")
			cfgCase(cw, rscp.ClientConfig{Address: v, Username: v, Password: v, Key: v}, "unusual-all")
		}
		// clients created at the same time on several goroutines, each with its own key
		{
			about("cfg (NewClient on 8 goroutines at once, 300 distinct keys each)")
			var wg sync.WaitGroup
			errs := make([]string, 8)
			for w := 0; w < 8; w++ {
				wg.Add(1)
				go func(w int) {
					defer wg.Done()
					defer func() {
						if r := recover(); r != nil {
							errs[w] = fmt.Sprint("panic: ", r)
						}
					}()
					for k := 0; k < 300; k++ {
						if cl, err := rscp.NewClient(rscp.ClientConfig{Address: "h", Username: "u", Password: "p", Key: fmt.Sprintf("key-%d-%d", w, k)}); err != nil || cl == nil {
							errs[w] = fmt.Sprint("NewClient fails: ", err)
						}
					}
				}(w)
			}
			wg.Wait()
			prop := "pass"
			for _, e := range errs {
				if e != "" {
					prop = "FAIL C16 creating clients concurrently: " + trunc(e, 120)
				}
			}
			cw.add("skip", "skip", "N cfg newclient-together", prop)
		}
		// keys around 65 536 and 131 072 bytes (only the first 32 bytes count), addresses made of brackets and colons
		for _, l := range []int{65535, 65536, 65537, 65540, 65567, 65568, 131072, 131073} {
			k := make([]byte, l)
			for i := range k {
				k[i] = byte('a' + i%23)
			}
			cfgCase(cw, rscp.ClientConfig{Address: "h", Username: "u", Password: "p", Key: string(k)}, fmt.Sprintf("key-len=%d", l))
		}
		for _, a := range []string{"[", "]", "[]", "[::1]", "[::1", "::1]", "::1", ":", "::", "[[::1]]", "a:b", "1.2.3.4:5"} {
			cfgCase(cw, rscp.ClientConfig{Address: a, Username: "u", Password: "p", Key: "k"}, "bracket-colon-address")
		}
		// keys with multi-byte characters, in particular straddling the 32nd byte
		for pre := 26; pre <= 33; pre++ {
			for _, ch := range []string{"é", "€", "😀", "\xff", "ä\u0301"} {
				for _, tail := range []string{"", "x", "tail-of-the-key"} {
					cfgCase(cw, rscp.ClientConfig{Address: "h", Username: "u", Password: "p", Key: strings.Repeat("k", pre) + ch + tail}, fmt.Sprintf("key-multibyte prefix=%d", pre))
				}
			}
		}
		// key lengths one by one (and long strings in the other fields)
		for l := 1; l <= 70; l++ {
			c := rscp.ClientConfig{Address: "h", Username: "u", Password: "p", Key: string(g.bytes(l))}
			cfgCase(cw, c, fmt.Sprintf("key-len=%d", l))
		}
		for _, l := range []int{255, 256, 1000, 65535, 65536, 70000} {
			s := strings.Repeat("x", l)
			cfgCase(cw, rscp.ClientConfig{Address: s, Username: "u", Password: "p", Key: "k"}, fmt.Sprintf("address-len=%d", l))
			cfgCase(cw, rscp.ClientConfig{Address: "h", Username: s, Password: s, Key: s}, fmt.Sprintf("all-len=%d", l))
		}
		for i := 0; i < n; i++ {
			c := rscp.ClientConfig{Address: "h", Username: "u", Password: "p", Key: string(g.bytes(1 + g.pick(40))),
				Port: ports[g.pick(len(ports))], HeartbeatInterval: durs[g.pick(len(durs))], ConnectionTimeout: durs[g.pick(len(durs))],
				SendTimeout: durs[g.pick(len(durs))], ReceiveTimeout: durs[g.pick(len(durs))], ReceiveBufferBlockSize: bufs[g.pick(len(bufs))]}
			if g.chance(0.3) {
				c.UseChecksum = g.chance(0.5)
			}
			if g.chance(0.1) {
				c.ReceiveBufferBlockSize = uint16(g.pick(65536))
			}
			cfgCase(cw, c, "random-options")
		}
	}
}

// cfgExpected is the outcome the documentation promises (C16), written independently of the Lean model:
// the prefix of the result line up to and including the receive buffer size.
func cfgExpected(c rscp.ClientConfig) string {
	var missing []string
	if c.Address == "" {
		missing = append(missing, "address")
	}
	if c.Username == "" {
		missing = append(missing, "username")
	}
	if c.Password == "" {
		missing = append(missing, "password")
	}
	if c.Key == "" {
		missing = append(missing, "key")
	}
	if len(missing) > 0 {
		return "missing " + strings.Join(missing, ",")
	}
	cs := "T"
	switch x := c.UseChecksum.(type) {
	case nil:
	case bool:
		if !x {
			cs = "F"
		}
	default:
		return "badcs"
	}
	port := c.Port
	if port == 0 {
		port = 5033
	}
	d := func(x time.Duration) int64 {
		if x <= 0 {
			return int64(3 * time.Second)
		}
		return int64(x)
	}
	hb := int64(c.HeartbeatInterval)
	if c.HeartbeatInterval <= time.Second {
		hb = int64(10 * time.Second)
	}
	buf := c.ReceiveBufferBlockSize
	if buf == 0 || buf > 2049 {
		buf = 1
	}
	key := make([]byte, 32)
	for i := range key {
		key[i] = 0xff
	}
	copy(key, c.Key)
	return fmt.Sprintf("ok %d %d %d %d %d %s %d %s ; new=ok", port, hb, d(c.ConnectionTimeout), d(c.SendTimeout), d(c.ReceiveTimeout), cs, buf, hexOf(key))
}
