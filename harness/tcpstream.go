package main

import (
	"fmt"
	"net"
	"strconv"
	"strings"
	"sync"
	"time"

	"github.com/spali/go-rscp/rscp"
)

// stream tcp (C06): sessions over real loopback TCP so that the client's own connect() runs; the peer is the
// independent implementation of the CBC scheme. Only peer behaviours whose observation is causally ordered
// with the client's call are used (answer, refuse, close, garbled+reply), so the transcript is deterministic.

type tcpSession struct {
	*session
	ln net.Listener
}

func newTCPSession(user, password, key string) (ts *tcpSession, err error) {
	defer func() {
		if r := recover(); r != nil {
			ts, err = nil, fmt.Errorf("NewClient panics")
		}
	}()
	ln, err := net.Listen("tcp", "127.0.0.1:0")
	if err != nil {
		return nil, err
	}
	host, port, _ := net.SplitHostPort(ln.Addr().String())
	pn, _ := strconv.Atoi(port)
	cl, err := rscp.NewClient(rscp.ClientConfig{Address: host, Port: uint16(pn), Username: user, Password: password, Key: key,
		ConnectionTimeout: 2 * time.Second, SendTimeout: 2 * time.Second, ReceiveTimeout: 2 * time.Second, HeartbeatInterval: time.Second + 1})
	if err != nil {
		ln.Close()
		return nil, err
	}
	s := &session{cl: cl, p: newPeer(key), authTag: uint32(rscp.RSCP_REQ_AUTHENTICATION)}
	s.p.decide = func(conn int, f peerFrame) behaviour {
		if s.cur == nil {
			return behaviour{kind: "closeBefore"}
		}
		if strings.HasPrefix(f.text, fmt.Sprintf("[ M %d ", s.authTag)) {
			return s.cur.auth.beh
		}
		return s.cur.user.beh
	}
	ts = &tcpSession{session: s, ln: ln}
	go func() {
		for n := 0; ; n++ {
			c, err := ln.Accept()
			if err != nil {
				return
			}
			s.p.wg.Add(1)
			go s.p.serve(n, c)
		}
	}()
	return ts, nil
}

// call runs one client call; events are derived from the peer's transcript and the client's state
func (ts *tcpSession) call(c *callSpec) string {
	s := ts.session
	s.p.mu.Lock()
	s.cur = c
	nBefore := len(s.p.frames)
	s.p.mu.Unlock()
	connBefore, _ := s.cl.VerifState()
	var events []string
	var res string
	if c.kind == "D" {
		s.cl.Disconnect()
		res = "ok [ ]"
	} else {
		if !connBefore {
			events = append(events, "dial1")
			s.conns++
		}
		done := make(chan string, 1)
		go func() {
			defer func() {
				if r := recover(); r != nil {
					done <- "panic"
				}
			}()
			if c.kind == "s" {
				m, err := s.cl.Send(c.reqs[0])
				if err != nil {
					done <- "err " + clientErrClass(err)
				} else {
					done <- "ok " + msgsString([]rscp.Message{*m})
				}
			} else {
				ms, err := s.cl.SendMultiple(c.reqs)
				if err != nil {
					done <- "err " + clientErrClass(err)
				} else {
					done <- "ok " + msgsString(ms)
				}
			}
		}()
		select {
		case res = <-done:
		case <-time.After(20 * time.Second):
			res = "hang"
		}
	}
	connAfter, _ := s.cl.VerifState()
	s.p.mu.Lock()
	for _, f := range s.p.frames[nBefore:] {
		events = append(events, fmt.Sprintf("sent %d %s", f.conn, f.text))
	}
	s.p.mu.Unlock()
	if (connBefore || c.kind != "D") && !connAfter {
		events = append(events, fmt.Sprintf("closed %d", s.conns-1))
	}
	return res + " @ " + strings.Join(events, " , ")
}

func (ts *tcpSession) close() {
	ts.cl.Disconnect()
	ts.ln.Close()
	ts.p.wg.Wait()
}

func (g *gen) tcpFail(ms []rscp.Message) replySpec {
	items := encItems(ms)
	switch g.pick(7) {
	case 5, 6:
		// the connection is closed inside a cipher block of the reply
		return replySpec{behaviour{kind: "closeInside", k: 101 + g.pick(62), items: items}, "X"}
	case 0:
		return replySpec{behaviour{kind: "closeBefore"}, "X"}
	case 1:
		return replySpec{behaviour{kind: "garbled", k: 1000, items: items}, "P invalidMagic 1 " + msgsString(ms)}
	case 2:
		return replySpec{behaviour{kind: "badCrc", items: items}, "P invalidCrc 0"}
	case 3:
		return replySpec{behaviour{kind: "malformed", items: itemBytes(1, 0x11, nil)}, "P invalidDataType 0"}
	}
	return replySpec{behaviour{kind: "garbled", k: 0, items: items}, "P invalidMagic 0"}
}

func init() {
	streams["tcp"] = func(g *gen, cw *caseWriter, n int, thorough bool) {
		// real sockets: an authenticated connection idles longer than the heartbeat interval, then the device takes a
		// request and closes without answering, then it is healthy again. Every request must reach the device at most
		// once, and the unanswered call must fail.
		{
			type idleRes struct{ op, impl, prop string }
			results := make([]idleRes, 2)
			var wg sync.WaitGroup
			for j := 0; j < 2; j++ {
				grant := frameReply([]rscp.Message{{Tag: rscp.RSCP_AUTHENTICATION, DataType: rscp.UChar8, Value: uint8(10)}})
				var calls []*callSpec
				for k := 0; k < 3; k++ {
					c := &callSpec{kind: "S", dialOk: true, writeOk: true, reqs: g.nonceRequest(k)[:1], auth: grant}
					c.user = frameReply(replyFor(c.reqs, k))
					if k == 1 {
						c.user = replySpec{behaviour{kind: "closeBefore"}, "X"}
					}
					calls = append(calls, c)
				}
				wg.Add(1)
				go func(j int, calls []*callSpec) {
					defer wg.Done()
					ts, err := newTCPSession("idleuser", "idlepw", "idlekey")
					if err != nil {
						return
					}
					var ops, res []string
					prop := "pass"
					for k, c := range calls {
						if k == 1 {
							time.Sleep(1100 * time.Millisecond)
						}
						r := ts.call(c)
						ops = append(ops, c.op())
						res = append(res, r)
						nonce := hexOf([]byte(c.reqs[0].Value.(string)))
						seen := 0
						if at := strings.Index(r, " @ "); at >= 0 {
							for _, ev := range strings.Split(r[at+3:], " , ") {
								if strings.HasPrefix(ev, "sent ") && strings.Contains(ev, nonce) {
									seen++
								}
							}
						}
						if seen > 1 {
							prop = "FAIL C08 a request reached the peer more than once (after an idle period): " + trunc(r, 200)
						}
						if k == 1 && strings.HasPrefix(r, "ok") {
							prop = "FAIL C08 a call whose request was never answered returns success: " + trunc(r, 120)
						}
					}
					ts.close()
					results[j] = idleRes{fmt.Sprintf("hist %s %s | %s", hexOf([]byte("idleuser")), hexOf([]byte("idlepw")), strings.Join(ops, " | ")), strings.Join(res, " | "), prop}
				}(j, calls)
			}
			wg.Wait()
			for _, r := range results {
				if r.op != "" {
					cw.add(r.op, r.impl, "N tcp idle-then-unanswered", r.prop)
				}
			}
		}
		for i := 0; i < n; i++ {
			keyLen := 1 + i%64
			key := g.bytes(keyLen)
			if g.chance(0.5) {
				for j := range key { // bytes ≥ 0x80, invalid UTF-8 included
					key[j] |= 0x80
				}
			}
			user, pw := "user"+strconv.Itoa(g.pick(100)), string(g.bytes(1+g.pick(12)))
			ts, err := newTCPSession(user, pw, string(key))
			if err != nil {
				continue
			}
			depth := 3 + g.pick(6)
			var ops, res []string
			prop := "pass"
			for k := 0; k < depth; k++ {
				var c *callSpec
				if g.chance(0.15) {
					c = &callSpec{kind: "D"}
				} else {
					c = &callSpec{kind: "S", dialOk: true, writeOk: true}
					c.reqs = g.nonceRequest(k)
					if g.chance(0.3) {
						// frames of varying size
						c.reqs = append(c.reqs, rscp.Message{Tag: 0x01000002, DataType: rscp.ByteArray, Value: g.bytes(g.pick(700))})
					}
					grant := []rscp.Message{{Tag: rscp.RSCP_AUTHENTICATION, DataType: rscp.UChar8, Value: uint8(10)}}
					switch g.pick(8) {
					case 0:
						c.auth = frameReply([]rscp.Message{{Tag: rscp.RSCP_AUTHENTICATION, DataType: rscp.UChar8, Value: uint8(0)}})
					case 1:
						c.auth = g.tcpFail(grant)
					default:
						c.auth = frameReply(grant)
					}
					rep := replyFor(c.reqs, k)
					if g.chance(0.25) {
						c.user = g.tcpFail(rep)
					} else {
						c.user = frameReply(rep)
					}
				}
				r := ts.call(c)
				ops = append(ops, c.op())
				res = append(res, r)
				if strings.Contains(r, "undecodable") {
					addVerdict(&prop, "FAIL C06 an independent peer cannot decrypt a frame of the client: "+trunc(r, 140))
				}
				if strings.HasPrefix(r, "panic") || strings.HasPrefix(r, "hang") {
					prop = "FAIL * client call " + strings.SplitN(r, " ", 2)[0]
				}
				// against a healthy exchange the call must succeed with this call's reply
				if c.kind != "D" && c.auth.beh.kind == "ok" && c.user.beh.kind == "ok" && strings.HasPrefix(c.auth.model, "F [ M 8388609 3 n u8 10") {
					want := "ok " + msgsString(replyFor(c.reqs, k))
					if !strings.HasPrefix(r, want+" @") {
						if !strings.HasPrefix(r, "err") {
							addVerdict(&prop, "FAIL C06 healthy exchange did not return its reply: "+trunc(r, 140))
						} else if rscp.VerifValidateRequests(c.reqs) == nil && !strings.Contains(prop, "FAIL C08") {
							// C08: whatever happened before (failed calls, disconnects, new connections), a valid
							// request against a healthy peer succeeds
							addVerdict(&prop, "FAIL C08 no recovery: a valid request against a healthy peer over a real connection gives "+trunc(r, 120))
							if strings.HasPrefix(r, "err invalid") || strings.HasPrefix(r, "err version") || strings.HasPrefix(r, "err dataLimit") {
								// the peer encrypted a well-formed reply with a fresh IV on a new connection / the chained state on a kept one
								addVerdict(&prop, "FAIL C06 the client cannot decode the reply of a peer that follows the encryption scheme: "+trunc(r, 120))
							}
						}
					}
				}
			}
			ts.close()
			cw.add(fmt.Sprintf("hist %s %s | %s", hexOf([]byte(user)), hexOf([]byte(pw)), strings.Join(ops, " | ")), strings.Join(res, " | "),
				fmt.Sprintf("N tcp keylen=%d depth=%d", keyLen, depth), prop)
		}
	}
}

// addVerdict records one more failed oracle for a case (verdicts of several properties are separated by " ;; ")
func addVerdict(prop *string, v string) {
	if *prop == "pass" {
		*prop = v
	} else if !strings.Contains(*prop, v[:12]) {
		*prop += " ;; " + v
	}
}
