package main

import (
	"fmt"
	"net"
	"strconv"
	"strings"
	"sync"
	"time"

	"github.com/spali/go-rscp/rscp"
)

// stream tcp (C06): sessions over real loopback TCP so that the client's own connect() runs; the peer is the
// independent implementation of the CBC scheme. Only peer behaviours whose observation is causally ordered
// with the client's call are used (answer, refuse, close, garbled+reply), so the transcript is deterministic.

type tcpSession struct {
	*session
	ln net.Listener
}

// tcpConnTimeout: the ConnectionTimeout of the sessions created next
var tcpConnTimeout = 2 * time.Second

// tcpHost, tcpHeartbeat: address form and HeartbeatInterval of the sessions created next
var tcpHost = ""
var tcpMu sync.Mutex
var tcpHeartbeat = time.Second + 1

func newTCPSession(user, password, key string) (ts *tcpSession, err error) {
	connTimeout := tcpConnTimeout
	defer func() {
		if r := recover(); r != nil {
			ts, err = nil, fmt.Errorf("NewClient panics")
		}
	}()
	lnAddr := "127.0.0.1:0"
	if tcpHost == "[::1]" {
		// the device addressed by an IPv6 literal in brackets (skipped where the loopback has no IPv6)
		lnAddr = "[::1]:0"
	}
	ln, err := net.Listen("tcp", lnAddr)
	if err != nil {
		return nil, err
	}
	host, port, _ := net.SplitHostPort(ln.Addr().String())
	if tcpHost != "" {
		host = tcpHost
	}
	pn, _ := strconv.Atoi(port)
	cl, err := rscp.NewClient(rscp.ClientConfig{Address: host, Port: uint16(pn), Username: user, Password: password, Key: key,
		ConnectionTimeout: connTimeout, SendTimeout: 2 * time.Second, ReceiveTimeout: 2 * time.Second, HeartbeatInterval: tcpHeartbeat})
	if err != nil {
		ln.Close()
		return nil, err
	}
	s := &session{cl: cl, p: newPeer(key), authTag: uint32(rscp.RSCP_REQ_AUTHENTICATION)}
	s.p.decide = func(conn int, f peerFrame) behaviour {
		if s.cur == nil {
			return behaviour{kind: "closeBefore"}
		}
		if strings.HasPrefix(f.text, fmt.Sprintf("[ M %d ", s.authTag)) {
			return s.cur.auth.beh
		}
		return s.cur.user.beh
	}
	ts = &tcpSession{session: s, ln: ln}
	go func() {
		for n := 0; ; n++ {
			c, err := ln.Accept()
			if err != nil {
				return
			}
			s.p.wg.Add(1)
			go s.p.serve(n, c)
		}
	}()
	return ts, nil
}

// call runs one client call; events are derived from the peer's transcript and the client's state
func (ts *tcpSession) call(c *callSpec) string {
	s := ts.session
	s.p.mu.Lock()
	s.cur = c
	nBefore := len(s.p.frames)
	s.p.mu.Unlock()
	connBefore, _ := s.cl.VerifState()
	var events []string
	var res string
	if c.kind == "D" {
		if r := disconnectBounded(s.cl); r != "ok" {
			res = r
		} else {
			res = "ok [ ]"
		}
	} else {
		if !connBefore {
			events = append(events, "dial1")
			s.conns++
		}
		done := make(chan string, 1)
		go func() {
			defer func() {
				if r := recover(); r != nil {
					done <- "panic"
				}
			}()
			if c.kind == "s" {
				m, err := s.cl.Send(c.reqs[0])
				if err != nil {
					done <- "err " + clientErrClass(err)
				} else {
					done <- "ok " + msgsString([]rscp.Message{*m})
				}
			} else {
				before := msgsString(c.reqs)
				ms, err := s.cl.SendMultiple(c.reqs)
				if after := msgsString(c.reqs); after != before {
					done <- "modified-requests " + trunc(after, 100)
				} else if err != nil {
					done <- "err " + clientErrClass(err)
				} else {
					retain(ms, "ok "+msgsString(ms))
					done <- "ok " + msgsString(ms)
				}
			}
		}()
		select {
		case res = <-done:
		case <-time.After(20 * time.Second):
			res = "hang"
		}
	}
	connAfter, _ := s.cl.VerifState()
	s.p.mu.Lock()
	for _, f := range s.p.frames[nBefore:] {
		events = append(events, fmt.Sprintf("sent %d %s", f.conn, f.text))
	}
	s.p.mu.Unlock()
	if (connBefore || c.kind != "D") && !connAfter {
		events = append(events, fmt.Sprintf("closed %d", s.conns-1))
	}
	return res + " @ " + strings.Join(events, " , ")
}

func (ts *tcpSession) close() {
	disconnectBounded(ts.cl)
	ts.ln.Close()
	waitBounded(&ts.p.wg)
}

func (g *gen) tcpFail(ms []rscp.Message) replySpec {
	items := encItems(ms)
	switch g.pick(7) {
	case 5, 6:
		// the connection is closed inside a cipher block of the reply
		return replySpec{behaviour{kind: "closeInside", k: 101 + g.pick(62), items: items}, "X"}
	case 0:
		return replySpec{behaviour{kind: "closeBefore"}, "X"}
	case 1:
		return replySpec{behaviour{kind: "garbled", k: 1000, items: items}, "P invalidMagic 1 " + msgsString(ms)}
	case 2:
		return replySpec{behaviour{kind: "badCrc", items: items}, "P invalidCrc 0"}
	case 3:
		return replySpec{behaviour{kind: "malformed", items: itemBytes(1, 0x11, nil)}, "P invalidDataType 0"}
	}
	return replySpec{behaviour{kind: "garbled", k: 0, items: items}, "P invalidMagic 0"}
}

func init() {
	streams["tcp"] = func(g *gen, cw *caseWriter, n int, thorough bool) {
		// scripted scenarios over real sockets, run in parallel; each is also compared with the model as a history
		{
			grant := func() replySpec {
				return frameReply([]rscp.Message{{Tag: rscp.RSCP_AUTHENTICATION, DataType: rscp.UChar8, Value: uint8(10)}})
			}
			healthy := func(k int) *callSpec {
				c := &callSpec{kind: "S", dialOk: true, writeOk: true, reqs: g.nonceRequest(k)[:1], auth: grant()}
				c.user = frameReply(replyFor(c.reqs, k))
				return c
			}
			type scenario struct {
				name   string
				calls  []*callSpec
				before map[int]time.Duration // pause before call k
				fails  map[int]bool          // calls that cannot succeed (never answered / dead connection)
				quick  map[int]bool          // calls that are answered at once and have to return at once
				hb     time.Duration         // HeartbeatInterval of the client (0 = the usual one)
				host   string                // how the client names the device ("" = its IP address)
				key    string                // the device's key ("" = the usual one)
				goOnly bool                  // judged by the oracles here alone (the token-level model has no word for the fault)
				op     string
				impl   string
				prop   string
			}
			var scs []*scenario
			// (1) an authenticated connection idles longer than the heartbeat interval, then the device takes a request and
			// closes without answering, then it is healthy again: every request reaches the device at most once, and the
			// unanswered call fails
			for j := 0; j < 2; j++ {
				sc := &scenario{name: "idle-then-unanswered", before: map[int]time.Duration{1: 1100 * time.Millisecond}, fails: map[int]bool{1: true}}
				for k := 0; k < 3; k++ {
					c := healthy(k)
					if k == 1 {
						c.user = replySpec{behaviour{kind: "closeBefore"}, "X"}
					}
					sc.calls = append(sc.calls, c)
				}
				scs = append(scs, sc)
			}
			// (2) the device answers and then resets the connection (RST); the next call finds a dead connection and fails
			// without anything reaching the device; the one after that authenticates on a new connection
			for j := 0; j < 2; j++ {
				sc := &scenario{name: "reset-while-idle", before: map[int]time.Duration{1: 80 * time.Millisecond}, fails: map[int]bool{1: true}}
				for k := 0; k < 4; k++ {
					c := healthy(k)
					if k == 0 {
						c.user.beh.kind = "okThenReset"
					}
					if k == 1 {
						c.writeOk = false // the connection is dead: nothing can be written
						c.user = replySpec{behaviour{kind: "closeBefore"}, "X"}
					}
					sc.calls = append(sc.calls, c)
				}
				scs = append(scs, sc)
			}
			// (3) after one good exchange, a long outage: 255, 256 and 257 connections in a row die before the authentication
			// is answered; the first healthy exchange afterwards authenticates and gets its own reply
			for _, dead := range []int{255, 256, 257} {
				sc := &scenario{name: fmt.Sprintf("outage-of-%d-connections", dead), fails: map[int]bool{}}
				sc.calls = append(sc.calls, healthy(0))
				// the established connection dies at the next request, then every new one dies at its authentication
				c1 := healthy(1)
				c1.user = replySpec{behaviour{kind: "closeBefore"}, "X"}
				sc.calls = append(sc.calls, c1)
				sc.fails[1] = true
				for k := 2; k <= dead+1; k++ {
					c := healthy(k)
					c.auth = replySpec{behaviour{kind: "closeBefore"}, "X"}
					sc.calls = append(sc.calls, c)
					sc.fails[k] = true
				}
				sc.calls = append(sc.calls, healthy(dead+2), healthy(dead+3))
				scs = append(scs, sc)
			}
			// (4) a request that the client refuses (its items fit one by one but not together) between two good ones, on one
			// connection: nothing of it reaches the device and the next exchange works — the cipher states stay in step
			for j := 0; j < 2; j++ {
				sc := &scenario{name: "refused-then-valid", fails: map[int]bool{1: true}}
				big := strings.Repeat("a", 40000)
				for k := 0; k < 3; k++ {
					c := healthy(k)
					if k == 1 {
						c.reqs = []rscp.Message{{Tag: 0x01000001, DataType: rscp.CString, Value: big}, {Tag: 0x01000002, DataType: rscp.CString, Value: big}}
						if j == 1 {
							c.reqs = []rscp.Message{{Tag: rscp.INFO_REQ_UTC_TIME, DataType: rscp.UChar8, Value: "wrong"}}
						}
						c.user = frameReply([]rscp.Message{{Tag: 0x00800001, DataType: rscp.UChar8, Value: uint8(1)}})
					}
					sc.calls = append(sc.calls, c)
				}
				scs = append(scs, sc)
			}
			// (6) legal requests of (nearly) the largest size, each followed by an ordinary one on the same connection
			for _, dl := range []int{65535, 65520, 65515, 65514} {
				sc := &scenario{name: fmt.Sprintf("largest-request-%d", dl), fails: map[int]bool{}}
				for k := 0; k < 3; k++ {
					c := healthy(k)
					if k == 1 {
						c.reqs = []rscp.Message{{Tag: 0x01000001, DataType: rscp.ByteArray, Value: make([]byte, dl-7)}}
						c.user = frameReply(replyFor(g.nonceRequest(k)[:1], k))
					}
					sc.calls = append(sc.calls, c)
				}
				scs = append(scs, sc)
			}
			// (7) the device answers a request with an error value (busy, try again, access denied …): that is the reply — it is
			// returned at once, the request is not repeated
			for _, code := range []uint32{4, 2, 1, 8} {
				sc := &scenario{name: fmt.Sprintf("device-answers-error-%d", code), fails: map[int]bool{}, quick: map[int]bool{1: true}}
				for k := 0; k < 3; k++ {
					c := healthy(k)
					if k == 1 {
						var rep []rscp.Message
						for _, r := range c.reqs {
							rep = append(rep, rscp.Message{Tag: r.Tag | 1<<23, DataType: rscp.Error, Value: rscp.RscpError(code)})
						}
						// … and more top-level items than were asked for
						rep = append(rep, rscp.Message{Tag: rscp.RSCP_GENERAL_ERROR, DataType: rscp.Error, Value: rscp.RscpError(code)}, rscp.Message{Tag: rscp.EMS_POWER_PV, DataType: rscp.Int32, Value: int32(1)},
							rscp.Message{Tag: rscp.BAT_DATA, DataType: rscp.Error, Value: rscp.RscpError(7)})
						c.user = frameReply(rep)
					}
					sc.calls = append(sc.calls, c)
				}
				scs = append(scs, sc)
			}
			// (8) the caller's own list contains an authentication request (other credentials) — on a fresh client and on an
			// authenticated one: the connection still starts with the configured credentials, the caller's list follows
			for j := 0; j < 2; j++ {
				sc := &scenario{name: "authentication-request-in-the-list", fails: map[int]bool{}}
				own := rscp.Message{Tag: rscp.RSCP_REQ_AUTHENTICATION, DataType: rscp.Container, Value: []rscp.Message{
					{Tag: rscp.RSCP_AUTHENTICATION_USER, DataType: rscp.CString, Value: "someone-else"}, {Tag: rscp.RSCP_AUTHENTICATION_PASSWORD, DataType: rscp.CString, Value: "other"}}}
				for k := 0; k < 3; k++ {
					c := healthy(k)
					if k == j {
						c.reqs = append([]rscp.Message{own}, c.reqs...)
						// the scripted device tells authentication from user frames by the tag of the first item: it answers this
						// user frame like an authentication, so both replies are scripted alike
						c.user = c.auth
					}
					sc.calls = append(sc.calls, c)
				}
				scs = append(scs, sc)
			}
			// (9) large replies (30, 50 and 65 thousand bytes) that the device writes in pieces of 1000 or 3000 bytes, to a
			// client with the default one-block receive buffer: they arrive, well inside the time-out
			for _, size := range []int{30000, 50000, 65000} {
				for _, piece := range []int{1000, 3000} {
					sc := &scenario{name: fmt.Sprintf("large-reply-%d-in-pieces-of-%d", size, piece), fails: map[int]bool{}, quick: map[int]bool{1: true}}
					for k := 0; k < 3; k++ {
						c := healthy(k)
						if k == 1 {
							rep := []rscp.Message{{Tag: c.reqs[0].Tag | 1<<23, DataType: rscp.ByteArray, Value: make([]byte, size)}}
							c.user = frameReply(rep)
							c.user.beh.kind, c.user.beh.k = "okPieces", piece
						}
						sc.calls = append(sc.calls, c)
					}
					scs = append(scs, sc)
				}
			}
			// (10) unusual but legal options: a heartbeat interval of ten hours; the device addressed by name — connect,
			// disconnect, connect again
			for _, v := range []struct {
				hb   time.Duration
				host string
			}{{10 * time.Hour, ""}, {100000 * time.Hour, ""}, {0, "localhost"}, {0, "[::1]"}} {
				sc := &scenario{name: fmt.Sprintf("options hb=%v host=%q", v.hb, v.host), fails: map[int]bool{}, hb: v.hb, host: v.host}
				for k := 0; k < 5; k++ {
					if k%2 == 1 {
						sc.calls = append(sc.calls, &callSpec{kind: "D", reqs: g.nonceRequest(k)[:1]})
						continue
					}
					sc.calls = append(sc.calls, healthy(k))
				}
				scs = append(scs, sc)
			}
			// (11) a single request sent with Send() and answered under a tag that does not mirror the request's (a general
			// error, another item): the first item of the reply is what Send returns
			for j, rt := range []rscp.Tag{rscp.RSCP_GENERAL_ERROR, rscp.EMS_POWER_PV, 0x7f800001} {
				sc := &scenario{name: fmt.Sprintf("send-answered-under-another-tag-%d", j), fails: map[int]bool{}}
				for k := 0; k < 3; k++ {
					c := healthy(k)
					c.kind = "s"
					c.reqs = c.reqs[:1]
					c.user = frameReply(replyFor(c.reqs, k)[:1])
					if k == 1 {
						c.user = frameReply([]rscp.Message{{Tag: rt, DataType: rscp.CString, Value: fmt.Sprintf("answer-%d", j)}})
					}
					sc.calls = append(sc.calls, c)
				}
				scs = append(scs, sc)
			}
			// (12) two devices in one process whose keys have the same CRC-32 once padded, two whose keys agree in the first
			// 31 bytes, and one with a key of 32 bytes of 0xFF: each client talks to its own device
			for _, k := range []string{"rscpkey-29685295", "rscpkey-32060020", "0123456789abcdef0123456789abcdeX", "0123456789abcdef0123456789abcdeY", strings.Repeat("\xff", 32), strings.Repeat("\xff", 31)} {
				sc := &scenario{name: fmt.Sprintf("options key=%q", k), fails: map[int]bool{}, key: k}
				for c := 0; c < 3; c++ {
					sc.calls = append(sc.calls, healthy(c))
				}
				scs = append(scs, sc)
			}
			// (13) a checksummed reply altered in one bit - the length field of its last item, so that the item runs into the
			// checksum field; or the ciphertext of its last block, which CBC carries into the header of what follows - and right
			// behind it a further well-formed frame: the call fails, the frame behind is never taken for the answer
			for v := 0; v < 6; v++ {
				sc := &scenario{name: fmt.Sprintf("altered-reply-then-frame-%d", v), fails: map[int]bool{1: true}, goOnly: true}
				for k := 0; k < 3; k++ {
					c := healthy(k)
					if k == 1 {
						c.user = replySpec{behaviour{kind: "alteredThenFrame", k: v, items: encItems([]rscp.Message{{Tag: rscp.INFO_SERIAL_NUMBER, DataType: rscp.CString, Value: "S10-4711-0815"[:12]}})}, "X"}
					}
					sc.calls = append(sc.calls, c)
				}
				scs = append(scs, sc)
			}
			// (5) a reply damaged in transit once (one bit of the frame's time stamp, checksum untouched): the call fails
			// with a checksum error, its request reached the device once, the next call works on a new connection
			for j := 0; j < 2; j++ {
				sc := &scenario{name: "reply-damaged-once", fails: map[int]bool{1: true}}
				for k := 0; k < 3; k++ {
					c := healthy(k)
					if k == 1 {
						c.user = replySpec{behaviour{kind: "badCrcOnce", items: encItems(replyFor(c.reqs, k)), once: new(int)}, "P invalidCrc 0"}
					}
					sc.calls = append(sc.calls, c)
				}
				scs = append(scs, sc)
			}
			var wg sync.WaitGroup
			for j, sc := range scs {
				wg.Add(1)
				go func(j int, sc *scenario) {
					defer wg.Done()
					user, pw := fmt.Sprintf("scuser%d", j), "scpw"
					tcpMu.Lock()
					if sc.hb != 0 {
						tcpHeartbeat = sc.hb
					}
					tcpHost = sc.host
					key := "sckey"
					if sc.key != "" {
						key = sc.key
					}
					ts, err := newTCPSession(user, pw, key)
					tcpHeartbeat, tcpHost = time.Second+1, ""
					tcpMu.Unlock()
					if err != nil {
						return
					}
					var ops, res []string
					prop := "pass"
					for k, c := range sc.calls {
						if d := sc.before[k]; d > 0 {
							time.Sleep(d)
						}
						t0 := time.Now()
						r := ts.call(c)
						if sc.quick[k] && time.Since(t0) > 900*time.Millisecond {
							addVerdict(&prop, fmt.Sprintf("FAIL C10 a call that the device answered at once took %v ;; FAIL C08 the call does not end with the device's reply", time.Since(t0).Round(time.Millisecond)))
						}
						ops = append(ops, c.op())
						res = append(res, r)
						if strings.Contains(r, "undecodable") {
							addVerdict(&prop, "FAIL C06 an independent peer cannot decrypt a frame of the client: "+trunc(r, 140))
						}
						nonce := "no-nonce"
						if str, ok := c.reqs[0].Value.(string); ok && len(str) < 100 {
							nonce = hexOf([]byte(str))
						}
						seen := 0
						if at := strings.Index(r, " @ "); at >= 0 {
							for _, ev := range strings.Split(r[at+3:], " , ") {
								if strings.HasPrefix(ev, "sent ") && strings.Contains(ev, nonce) {
									seen++
								}
							}
						}
						if seen > 1 {
							addVerdict(&prop, "FAIL C08 a request reached the peer more than once: "+trunc(r, 200))
						}
						if sc.fails[k] && strings.HasPrefix(r, "ok") {
							addVerdict(&prop, "FAIL C08 a call that cannot succeed (never answered / refused / damaged reply) returns success: "+trunc(r, 120))
							if c.user.beh.kind == "badCrcOnce" || c.user.beh.kind == "alteredThenFrame" {
								addVerdict(&prop, "FAIL C04 a reply whose checksum does not match is not reported as an error: "+trunc(r, 120))
							}
						}
						if sc.name == "refused-then-valid" && k == 1 && strings.Contains(r, "sent ") {
							addVerdict(&prop, "FAIL C05 a refused request reached the wire: "+trunc(r, 120))
						}
						if !sc.fails[k] && c.kind != "D" {
							want := "ok " + strings.TrimPrefix(c.user.model, "F ") // the reply scripted for this very call
							if !strings.HasPrefix(r, want+" @") {
								addVerdict(&prop, fmt.Sprintf("FAIL C08 no recovery: call %d of scenario %s against a healthy peer gives %s", k, sc.name, trunc(r, 120)))
								if strings.HasPrefix(sc.name, "options") {
									addVerdict(&prop, fmt.Sprintf("FAIL C06 with a legal option value (%s) a healthy exchange fails: %s", sc.name, trunc(r, 100)))
								}
								if strings.HasPrefix(sc.name, "large-reply") {
									addVerdict(&prop, fmt.Sprintf("FAIL C07 a reply delivered completely over TCP (%s) is not returned: %s", sc.name, trunc(r, 100)))
								}
								if strings.Contains(r, "undecodable") || strings.HasPrefix(r, "err invalid") {
									addVerdict(&prop, "FAIL C06 client and peer no longer understand each other on the connection: "+trunc(r, 100))
								}
							}
						}
					}
					ts.close()
					if v := authFirstViolation(res, ts.authTag, user, pw); v != "" {
						addVerdict(&prop, "FAIL C09 "+v)
					}
					sc.op = fmt.Sprintf("hist %s %s | %s", hexOf([]byte(user)), hexOf([]byte(pw)), strings.Join(ops, " | "))
					sc.impl, sc.prop = strings.Join(res, " | "), prop
				}(j, sc)
			}
			wg.Wait()
			for _, sc := range scs {
				if sc.op != "" && sc.goOnly {
					cw.add("skip", "skip", "N tcp "+sc.name, sc.prop)
				} else if sc.op != "" {
					cw.add(sc.op, sc.impl, "N tcp "+sc.name, sc.prop)
				}
			}
			// a client whose device is unreachable (nothing listens on its port) tries twelve times; a different client with a
			// healthy device is not affected by that
			{
				prop := "pass"
				if ln, err := net.Listen("tcp", "127.0.0.1:0"); err == nil {
					_, port, _ := net.SplitHostPort(ln.Addr().String())
					ln.Close()
					pn, _ := strconv.Atoi(port)
					if dead, err := rscp.NewClient(rscp.ClientConfig{Address: "127.0.0.1", Port: uint16(pn), Username: "u", Password: "p", Key: "k",
						ConnectionTimeout: 500 * time.Millisecond, SendTimeout: time.Second, ReceiveTimeout: time.Second}); err == nil {
						for k := 0; k < 12; k++ {
							done := make(chan bool, 1)
							go func() {
								defer func() { recover(); done <- true }()
								_, _ = dead.Send(rscp.Message{Tag: rscp.INFO_REQ_UTC_TIME, DataType: rscp.None})
							}()
							select {
							case <-done:
							case <-time.After(5 * time.Second):
								prop = "FAIL C10 a call to a port nobody listens on does not return"
							}
						}
						tcpMu.Lock()
						ts, err := newTCPSession("afteroutage", "pw", "sckey")
						tcpMu.Unlock()
						if err == nil {
							c := healthy(0)
							if r := ts.call(c); !strings.HasPrefix(r, "ok ") && prop == "pass" {
								prop = "FAIL C17 after twelve failed connection attempts of another client, a client with a healthy device gets " + trunc(r, 100) + " ;; FAIL C08 no recovery: a healthy device is not reached: " + trunc(r, 100)
							}
							ts.close()
						}
					}
				}
				cw.add("skip", "skip", "N tcp healthy-client-beside-unreachable-device", prop)
			}
		}
		for i := 0; i < n; i++ {
			keyLen := 1 + i%64
			key := g.bytes(keyLen)
			if g.chance(0.5) {
				for j := range key { // bytes ≥ 0x80, invalid UTF-8 included
					key[j] |= 0x80
				}
			}
			user, pw := "user"+strconv.Itoa(g.pick(100)), string(g.bytes(1+g.pick(12)))
			var ks string
			user, pw, ks = g.edgeCredentials(i, user, pw, string(key))
			key = []byte(ks)
			ts, err := newTCPSession(user, pw, string(key))
			if err != nil {
				continue
			}
			depth := 3 + g.pick(6)
			var ops, res []string
			prop := "pass"
			for k := 0; k < depth; k++ {
				var c *callSpec
				if g.chance(0.15) {
					c = &callSpec{kind: "D"}
				} else {
					c = &callSpec{kind: "S", dialOk: true, writeOk: true}
					c.reqs = g.nonceRequest(k)
					if g.chance(0.3) {
						// frames of varying size
						c.reqs = append(c.reqs, rscp.Message{Tag: 0x01000002, DataType: rscp.ByteArray, Value: g.bytes(g.pick(700))})
					}
					grant := []rscp.Message{{Tag: rscp.RSCP_AUTHENTICATION, DataType: rscp.UChar8, Value: uint8(10)}}
					switch g.pick(8) {
					case 0:
						c.auth = frameReply([]rscp.Message{{Tag: rscp.RSCP_AUTHENTICATION, DataType: rscp.UChar8, Value: uint8(0)}})
					case 1:
						c.auth = g.tcpFail(grant)
					default:
						c.auth = frameReply(grant)
					}
					rep := replyFor(c.reqs, k)
					if g.chance(0.25) {
						c.user = g.tcpFail(rep)
					} else {
						c.user = frameReply(rep)
					}
				}
				r := ts.call(c)
				ops = append(ops, c.op())
				res = append(res, r)
				if strings.Contains(r, "undecodable") {
					addVerdict(&prop, "FAIL C06 an independent peer cannot decrypt a frame of the client: "+trunc(r, 140))
				}
				if strings.HasPrefix(r, "panic") || strings.HasPrefix(r, "hang") {
					prop = "FAIL * client call " + strings.SplitN(r, " ", 2)[0]
				}
				// against a healthy exchange the call must succeed with this call's reply
				if c.kind != "D" && c.auth.beh.kind == "ok" && c.user.beh.kind == "ok" && strings.HasPrefix(c.auth.model, "F [ M 8388609 3 n u8 10") {
					want := "ok " + msgsString(replyFor(c.reqs, k))
					if !strings.HasPrefix(r, want+" @") {
						if !strings.HasPrefix(r, "err") {
							addVerdict(&prop, "FAIL C06 healthy exchange did not return its reply: "+trunc(r, 140))
						} else if rscp.VerifValidateRequests(c.reqs) == nil && !strings.Contains(prop, "FAIL C08") {
							// C08: whatever happened before (failed calls, disconnects, new connections), a valid
							// request against a healthy peer succeeds
							addVerdict(&prop, "FAIL C08 no recovery: a valid request against a healthy peer over a real connection gives "+trunc(r, 120))
							if strings.HasPrefix(r, "err invalid") || strings.HasPrefix(r, "err version") || strings.HasPrefix(r, "err dataLimit") {
								// the peer encrypted a well-formed reply with a fresh IV on a new connection / the chained state on a kept one
								addVerdict(&prop, "FAIL C06 the client cannot decode the reply of a peer that follows the encryption scheme: "+trunc(r, 120))
							}
						}
					}
				}
			}
			ts.close()
			if v := authFirstViolation(res, ts.authTag, user, pw); v != "" {
				addVerdict(&prop, "FAIL C09 "+v)
			}
			cw.add(fmt.Sprintf("hist %s %s | %s", hexOf([]byte(user)), hexOf([]byte(pw)), strings.Join(ops, " | ")), strings.Join(res, " | "),
				fmt.Sprintf("N tcp keylen=%d depth=%d", keyLen, depth), prop)
		}
	}
}

// addVerdict records one more failed oracle for a case (verdicts of several properties are separated by " ;; ")
func addVerdict(prop *string, v string) {
	if *prop == "pass" {
		*prop = v
	} else if !strings.Contains(*prop, v[:12]) {
		*prop += " ;; " + v
	}
}

// authFirstViolation: the first frame the peer recorded on every connection is the authentication request with exactly the
// configured credentials (Go-side oracle of C09 over the transcript of a session)
func authFirstViolation(results []string, authTag uint32, user, pw string) string {
	seen := map[string]bool{}
	want := fmt.Sprintf("[ M %d 14 c [ M %d 13 s %s M %d 13 s %s ] ]", authTag, uint32(rscp.RSCP_AUTHENTICATION_USER), hexOf([]byte(user)),
		uint32(rscp.RSCP_AUTHENTICATION_PASSWORD), hexOf([]byte(pw)))
	for _, r := range results {
		at := strings.Index(r, " @ ")
		if at < 0 {
			continue
		}
		for _, ev := range strings.Split(r[at+3:], " , ") {
			if !strings.HasPrefix(ev, "sent ") {
				continue
			}
			f := strings.SplitN(ev, " ", 3)
			if len(f) < 3 || seen[f[1]] {
				continue
			}
			seen[f[1]] = true
			if strings.HasPrefix(f[2], "undecodable") {
				return "the first frame on connection " + f[1] + " cannot be decoded by an independent peer (" + trunc(f[2], 60) + "): it is not the authentication request with the configured credentials"
			}
			if f[2] != want {
				return "the first frame on connection " + f[1] + " is not the authentication request with the configured credentials: " + trunc(f[2], 120)
			}
		}
	}
	return ""
}
