package main

import (
	"encoding/json"
	"math"
	"math/rand"
	"strings"
	"time"

	"github.com/spali/go-rscp/rscp"
)

// type-directed, boundary-heavy generators; every choice derives from one PRNG

type gen struct {
	r         *rand.Rand
	known     []rscp.Tag
	byType    map[rscp.DataType][]rscp.Tag
	reqTags   []rscp.Tag
	reqByType map[rscp.DataType][]rscp.Tag
	respTags  []rscp.Tag
}

var definedTypes = []rscp.DataType{rscp.None, rscp.Bool, rscp.Char8, rscp.UChar8, rscp.Int16, rscp.UInt16, rscp.Int32,
	rscp.Uint32, rscp.Int64, rscp.Uint64, rscp.Float32, rscp.Double64, rscp.Bitfield, rscp.CString, rscp.Container,
	rscp.Timestamp, rscp.ByteArray, rscp.Error}

func newGen(seed int64) *gen {
	g := &gen{r: rand.New(rand.NewSource(seed)), byType: map[rscp.DataType][]rscp.Tag{}, reqByType: map[rscp.DataType][]rscp.Tag{}}
	g.known = rscp.TagValues()
	for _, t := range g.known {
		g.byType[t.DataType()] = append(g.byType[t.DataType()], t)
		if rscp.VerifIsRequest(t) {
			g.reqTags = append(g.reqTags, t)
			g.reqByType[t.DataType()] = append(g.reqByType[t.DataType()], t)
		} else {
			g.respTags = append(g.respTags, t)
		}
	}
	return g
}

func (g *gen) pick(n int) int        { return g.r.Intn(n) }
func (g *gen) chance(p float64) bool { return g.r.Float64() < p }

func (g *gen) tag() rscp.Tag {
	switch g.pick(10) {
	case 0:
		return rscp.Tag(g.r.Uint32()) // almost surely unknown
	case 1:
		return []rscp.Tag{0, 1, 0xFFFFFFFF, 0x7FFFFFFF, 0x80000000, 0x00800000, 0x007FFFFF, 0xFF7FFFFF}[g.pick(8)]
	}
	return g.known[g.pick(len(g.known))]
}

func (g *gen) reqTag() rscp.Tag {
	if g.chance(0.15) {
		return rscp.Tag(g.r.Uint32() &^ (1 << 23))
	}
	return g.reqTags[g.pick(len(g.reqTags))]
}

func (g *gen) bytes(n int) []byte {
	b := make([]byte, n)
	switch g.pick(4) {
	case 0:
		for i := range b {
			b[i] = byte('a' + g.pick(26))
		}
	case 1: // zeros and 0xff: interacts with padding
		for i := range b {
			b[i] = []byte{0, 0, 0xff, 1}[g.pick(4)]
		}
	default:
		g.r.Read(b)
	}
	return b
}

func (g *gen) smallLen() int {
	switch g.pick(12) {
	case 0, 1:
		return 0
	case 2:
		return 1
	case 3:
		return 31 + g.pick(3)
	case 4:
		return 63 + g.pick(3)
	case 5:
		return g.pick(300)
	}
	return g.pick(24)
}

var secEdges = []int64{0, 1, -1, 1 << 31, -(1 << 31), 253402300799, 253402300800, -62135596800, -62135596801,
	-62167219200, -62167219201, math.MaxInt64, math.MinInt64, math.MaxInt64 - 1, math.MinInt64 + 1, 1700000000,
	9223372036, -9223372036, 9223372037, -9223372037}

func (g *gen) time() time.Time {
	var sec int64
	if g.chance(0.5) {
		sec = secEdges[g.pick(len(secEdges))]
	} else {
		sec = g.r.Int63()
		if g.chance(0.5) {
			sec = -sec
		}
		if g.chance(0.5) {
			sec %= 4000000000
		}
	}
	nsec := []int64{0, 999999999, 1, 500000000, int64(g.pick(1000000000))}[g.pick(5)]
	return time.Unix(sec, nsec).UTC()
}

func (g *gen) u64() uint64 {
	switch g.pick(6) {
	case 0:
		return 0
	case 1:
		return math.MaxUint64
	case 2:
		return 1 << uint(g.pick(64))
	case 3:
		return (1 << uint(g.pick(64))) - 1
	}
	return g.r.Uint64()
}

var f32Edges = []uint32{0, 0x80000000, 0x7f800000, 0xff800000, 0x7fc00000, 0x7fc00001, 0xffc00000, 0x7f800001, 1, 0x007fffff, 0x00800000, 0x7f7fffff, 0x3f800000}
var f64Edges = []uint64{0, 0x8000000000000000, 0x7ff0000000000000, 0xfff0000000000000, 0x7ff8000000000000, 0x7ff8000000000001, 0x7ff0000000000001, 1, 0x000fffffffffffff, 0x0010000000000000, 0x7fefffffffffffff, 0x3ff0000000000000}

// value returns a value of the Go type the data type requires
func (g *gen) value(dt rscp.DataType, depth int, budget *int) interface{} {
	switch dt {
	case rscp.None:
		return nil
	case rscp.Bool:
		return g.chance(0.5)
	case rscp.Char8:
		return int8(g.u64())
	case rscp.UChar8, rscp.Bitfield:
		return uint8(g.u64())
	case rscp.Int16:
		return int16(g.u64())
	case rscp.UInt16:
		return uint16(g.u64())
	case rscp.Int32:
		return int32(g.u64())
	case rscp.Uint32:
		return uint32(g.u64())
	case rscp.Int64:
		return int64(g.u64())
	case rscp.Uint64:
		return g.u64()
	case rscp.Float32:
		if g.chance(0.5) {
			return math.Float32frombits(f32Edges[g.pick(len(f32Edges))])
		}
		return math.Float32frombits(g.r.Uint32())
	case rscp.Double64:
		if g.chance(0.5) {
			return math.Float64frombits(f64Edges[g.pick(len(f64Edges))])
		}
		return math.Float64frombits(g.r.Uint64())
	case rscp.CString:
		if g.chance(0.25) {
			// text: multi-byte UTF-8 (2, 3 and 4 byte sequences), NUL at either end, combining marks
			parts := []string{"ä", "ö", "€", "😀", "日本", "e\u0301", "\x00", "Ω", "ß", "\u2028", "a", "Z", " ", "\t"}
			var sb strings.Builder
			for k := 0; k <= g.pick(6); k++ {
				sb.WriteString(parts[g.pick(len(parts))])
			}
			*budget -= sb.Len()
			return sb.String()
		}
		n := g.smallLen()
		*budget -= n
		return string(g.bytes(n))
	case rscp.ByteArray:
		n := g.smallLen()
		*budget -= n
		return g.bytes(n)
	case rscp.Timestamp:
		return g.time()
	case rscp.Error:
		if g.chance(0.5) {
			return rscp.RscpError(g.pick(10))
		}
		return rscp.RscpError(g.r.Uint32())
	case rscp.Container:
		n := 0
		if depth > 0 {
			n = []int{0, 0, 1, 1, 2, 3, 5, 8}[g.pick(8)]
		}
		return g.msgs(depth-1, n, budget)
	}
	return nil
}

func (g *gen) dataType(depth int) rscp.DataType {
	if depth > 0 && g.chance(0.25) {
		return rscp.Container
	}
	return definedTypes[g.pick(len(definedTypes))]
}

// msg returns a well-formed message: tag free, data type defined, value of the matching Go type
func (g *gen) msg(depth int, budget *int) rscp.Message {
	dt := g.dataType(depth)
	var t rscp.Tag
	if g.chance(0.6) && len(g.byType[dt]) > 0 {
		t = g.byType[dt][g.pick(len(g.byType[dt]))]
	} else {
		t = g.tag()
	}
	*budget -= 7
	return rscp.Message{Tag: t, DataType: dt, Value: g.value(dt, depth, budget)}
}

func (g *gen) msgs(depth, n int, budget *int) []rscp.Message {
	ms := make([]rscp.Message, 0, n)
	for i := 0; i < n && *budget > 0; i++ {
		ms = append(ms, g.msg(depth, budget))
	}
	return ms
}

func (g *gen) tree() []rscp.Message {
	budget := 60000
	depth := []int{0, 1, 1, 2, 2, 3, 4, 6}[g.pick(8)]
	n := []int{0, 1, 1, 2, 3, 4, 6, 8}[g.pick(8)]
	return g.msgs(depth, n, &budget)
}

// defined types whose underlying type is one of the table types: not what the tables ask for
type namedString string
type namedBytes []byte
type namedMsgs []rscp.Message
type namedBool bool
type namedU8 uint8
type namedI32 int32

// values that refer to themselves (legal Go values of an interface{} field): formatting them with %v never ends
func selfReferential() []interface{} {
	m := map[string]interface{}{}
	m["self"] = m
	sl := make([]interface{}, 1)
	sl[0] = sl
	msg := &rscp.Message{Tag: 1, DataType: rscp.None}
	msg.Value = msg
	return []interface{}{m, sl, msg}
}

var namedValues = []interface{}{json.Number("12"), json.RawMessage("1"), namedString("x"), namedString(""), namedBytes{1, 2}, namedBytes(nil),
	namedMsgs{}, namedMsgs(nil), namedBool(true), namedU8(1), namedI32(1), time.Duration(5), rscp.AuthLevel(1)}

// a Go value whose type is none of the table types
func (g *gen) alienValue() interface{} {
	if g.chance(0.3) {
		return namedValues[g.pick(len(namedValues))]
	}
	switch g.pick(12) {
	case 8:
		s := "pointer to a string"
		return &s
	case 9:
		b := []byte{1, 2}
		return &b
	case 10:
		m := []rscp.Message{}
		return &m
	case 11:
		var s *string
		return s
	case 0:
		return 5 // int
	case 1:
		return uint(7)
	case 2:
		return struct{}{}
	case 3:
		return []int{1}
	case 4:
		return map[string]int{}
	case 5:
		return rscp.Tag(1)
	case 6:
		return rscp.DataType(3)
	}
	return &struct{ A int }{1}
}

// wrongValue returns a value that does NOT have the Go type dt requires
func (g *gen) wrongValue(dt rscp.DataType) interface{} {
	for {
		other := definedTypes[g.pick(len(definedTypes))]
		if g.chance(0.2) {
			return g.alienValue()
		}
		b := 1000
		v := g.value(other, 1, &b)
		if !rscp.VerifIsValidValue(dt, v) {
			return v
		}
	}
}

func msgsSizeWide(ms []rscp.Message) int {
	n := 0
	for _, m := range ms {
		n += 7
		switch v := m.Value.(type) {
		case string:
			n += len(v)
		case []byte:
			n += len(v)
		case []rscp.Message:
			n += msgsSizeWide(v)
		default:
			n += int(rscp.VerifLength(m.DataType))
		}
	}
	return n
}
