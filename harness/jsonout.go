package main

import (
	"bytes"
	"encoding/base64"
	"encoding/json"
	"fmt"
	"math"
	"math/big"
	"os"
	"strconv"
	"strings"
	"time"

	"github.com/spali/go-rscp/rscp"
)

// stream jsonout (C13): response trees through the three output formats of the e3dc command

// joTokens turns the JSON text the tool printed into the abstract token form of the model (non-integral numbers → F,
// RFC 3339 strings → T); ok=false if the text is not exactly one JSON document
func joTokens(txt []byte) (string, bool) {
	dec := json.NewDecoder(bytes.NewReader(txt))
	dec.UseNumber()
	var out []string
	var walk func() bool
	walk = func() bool {
		tok, err := dec.Token()
		if err != nil {
			return false
		}
		switch v := tok.(type) {
		case json.Delim:
			switch v {
			case '[':
				out = append(out, "[")
				for dec.More() {
					if !walk() {
						return false
					}
				}
				if _, err := dec.Token(); err != nil {
					return false
				}
				out = append(out, "]")
			case '{':
				out = append(out, "{")
				for dec.More() {
					k, err := dec.Token()
					if err != nil {
						return false
					}
					ks, ok := k.(string)
					if !ok {
						return false
					}
					out = append(out, "k:"+hexOf([]byte(ks)))
					if !walk() {
						return false
					}
				}
				if _, err := dec.Token(); err != nil {
					return false
				}
				out = append(out, "}")
			}
		case nil:
			out = append(out, "null")
		case bool:
			out = append(out, fmt.Sprint(v))
		case json.Number:
			if plainIntRe.MatchString(v.String()) {
				n, _ := new(big.Int).SetString(v.String(), 10)
				out = append(out, "i:"+n.String())
			} else {
				out = append(out, "F")
			}
		case string:
			if t, err := time.Parse(time.RFC3339Nano, v); err == nil {
				out = append(out, fmt.Sprintf("T:%d:%d", t.Unix(), t.Nanosecond()))
			} else {
				out = append(out, "s:"+hexOf([]byte(v)))
			}
		}
		return true
	}
	if !walk() {
		return "", false
	}
	if _, err := dec.Token(); err == nil || dec.More() {
		return "", false
	}
	return strings.Join(out, " "), true
}

func (g *gen) asciiString() string {
	n := g.pick(14)
	bs := make([]byte, n)
	for i := range bs {
		bs[i] = byte(32 + g.pick(95))
	}
	return string(bs)
}

// response trees: what the decoder can return (value types as decoded)
func (g *gen) response(depth int, tags []rscp.Tag, unusual bool) rscp.Message {
	t := tags[g.pick(len(tags))]
	if g.chance(0.1) {
		t = rscp.Tag(g.r.Uint32() | 1<<23)
	}
	if depth > 0 && g.chance(0.4) {
		var ch []rscp.Message
		for i := 0; i < g.pick(5); i++ {
			ch = append(ch, g.response(depth-1, tags, unusual))
		}
		return rscp.Message{Tag: t, DataType: rscp.Container, Value: ch}
	}
	dt := definedTypes[g.pick(len(definedTypes))]
	for dt == rscp.Container {
		dt = definedTypes[g.pick(len(definedTypes))]
	}
	b := 100
	m := rscp.Message{Tag: t, DataType: dt, Value: g.value(dt, 0, &b)}
	switch dt {
	case rscp.CString:
		m.Value = g.asciiString()
	case rscp.Float32:
		f := float32(g.pick(2000)-1000) / []float32{1, 2, 8, 10, 3}[g.pick(5)]
		if unusual && g.chance(0.3) {
			f = float32([]float64{math.NaN(), math.Inf(1), math.Inf(-1)}[g.pick(3)])
		}
		m.Value = f
	case rscp.Double64:
		f := float64(g.pick(2000)-1000) / []float64{1, 2, 8, 10, 3}[g.pick(5)]
		if g.chance(0.1) {
			f = []float64{1e20, 1e21, 1e22, -1e21, 1e-7, 5e-324, 4503599627370496, -9007199254740992}[g.pick(8)]
		}
		if unusual && g.chance(0.3) {
			f = []float64{math.NaN(), math.Inf(1), math.Inf(-1)}[g.pick(3)]
		}
		m.Value = f
	case rscp.Timestamp:
		if !unusual {
			m.Value = time.Unix(g.r.Int63n(253402300799), int64(g.pick(1000000000))).UTC()
		}
	}
	return m
}

// responseOfType: a scalar (or empty-container) response of the given type with a value the model can print
func (g *gen) responseOfType(t rscp.Tag, dt rscp.DataType) rscp.Message {
	if dt == rscp.Container {
		return rscp.Message{Tag: t, DataType: dt, Value: []rscp.Message{{Tag: 0x00800001, DataType: rscp.UChar8, Value: uint8(g.pick(200))}}}
	}
	for {
		m := g.response(0, []rscp.Tag{t}, false)
		if m.DataType == dt {
			m.Tag = t
			return m
		}
	}
}

func init() {
	streams["jsonout"] = func(g *gen, cw *caseWriter, n int, thorough bool) {
		loop, err := startE3Loop()
		if err != nil {
			fmt.Fprintln(os.Stderr, "cannot start e3dc loop:", err)
			os.Exit(3)
		}
		defer loop.close()
		respTags := g.respTags
		run := func(ms []rscp.Message, label string, unusual bool) {
			plain := plainFrame(ms, false, time.Unix(1, 0).UTC())
			if plain == nil || len(ms) == 0 {
				return
			}
			if strconv.IntSize == 32 && yearBeyondInt32(ms) {
				// Time.Year() returns an int: on a 32-bit platform years beyond ±2^31 wrap, so which face of the known
				// finding F17 shows there (an error, or the rewrite to 1970) differs from the model, which has Go's 64-bit
				// arithmetic. Such time stamps are left to the 64-bit run.
				return
			}
			for _, format := range []string{"json", "jsonsimple", "jsonmerged"} {
				got := loop.ask("out " + format + " " + hexOf(plain))
				impl := "err"
				prop := "pass"
				switch {
				case got == "panic" || got == "loop-dead":
					prop = "FAIL C13 sig=panic the output formatter panics (format " + format + ")"
					impl = "panic"
				case strings.HasPrefix(got, "ok "):
					txt, _ := unhex(got[3:])
					toks, ok := joTokens(txt)
					if !ok {
						prop = "FAIL C13 the output is not one valid JSON document: " + trunc(string(txt), 100)
						impl = "invalid-json"
					} else {
						impl = "ok " + toks
						if why := structureOK(ms, format, txt); why != "" {
							prop = "FAIL C13 " + why
						}
						// determinism: a second run prints the same bytes
						if again := loop.ask("out " + format + " " + hexOf(plain)); again != got {
							prop = "FAIL C13 the output is not deterministic"
						}
					}
				default:
					// the tool fails: only the known representation problems may cause that
					sig := failureSignature(ms, format)
					prop = "FAIL C13 sig=" + sig + " the tool cannot print this response in format " + format
				}
				if loop.ask("out jsonmerged "+hexOf(plainFrame([]rscp.Message{{Tag: rscp.INFO_SERIAL_NUMBER, DataType: rscp.UChar8, Value: uint8(1)}}, false, time.Unix(1, 0).UTC()))) == "loop-dead" {
					l2, err := startE3Loop()
					if err == nil {
						*loop = *l2
					}
				}
				cw.add("jout "+format+" "+msgsString(ms), impl, "N jsonout "+label, prop)
			}
		}
		for i := 0; i < n; i++ {
			// few distinct tags per level, so that repetitions, interleavings and scalar/container collisions are common
			tags := []rscp.Tag{respTags[g.pick(len(respTags))], respTags[g.pick(len(respTags))], respTags[g.pick(len(respTags))]}
			var ms []rscp.Message
			for k := 0; k <= g.pick(6); k++ {
				ms = append(ms, g.response(3, tags, false))
			}
			run(ms, "response "+treeLabel(ms), false)
		}
		// repeated / interleaved container tags and scalar/container collisions, systematically
		A, B := rscp.BAT_DATA, rscp.EMS_GET_SYS_SPECS
		c := func(tag rscp.Tag, v uint8) rscp.Message {
			return rscp.Message{Tag: tag, DataType: rscp.Container, Value: []rscp.Message{{Tag: rscp.BAT_INDEX, DataType: rscp.UChar8, Value: v}}}
		}
		s := func(tag rscp.Tag, v uint8) rscp.Message {
			return rscp.Message{Tag: tag, DataType: rscp.UChar8, Value: v}
		}
		alphabet := []func(uint8) rscp.Message{func(v uint8) rscp.Message { return c(A, v) }, func(v uint8) rscp.Message { return c(B, v) },
			func(v uint8) rscp.Message { return s(A, v) }, func(v uint8) rscp.Message { return s(B, v) }}
		maxLen := 4
		if thorough {
			maxLen = 5
		}
		var rec func(prefix []rscp.Message, l int)
		rec = func(prefix []rscp.Message, l int) {
			if l == 0 {
				run(append([]rscp.Message{}, prefix...), fmt.Sprintf("tag-pattern len=%d", len(prefix)), false)
				// the same pattern one level down
				run([]rscp.Message{{Tag: rscp.EMS_GET_SYS_SPECS, DataType: rscp.Container, Value: append([]rscp.Message{}, prefix...)}}, "tag-pattern nested", false)
				return
			}
			for _, f := range alphabet {
				rec(append(prefix, f(uint8(len(prefix)+1))), l-1)
			}
		}
		for l := 1; l <= maxLen; l++ {
			rec(nil, l)
		}
		// unusual values: NaN / Inf, time stamps over the whole int64 range
		for i := 0; i < 40+n/5; i++ {
			tags := []rscp.Tag{respTags[g.pick(len(respTags))], respTags[g.pick(len(respTags))]}
			var ms []rscp.Message
			for k := 0; k <= g.pick(3); k++ {
				ms = append(ms, g.response(2, tags, true))
			}
			run(ms, "unusual-values", true)
		}
		// floats of arbitrary bit patterns: how encoding/json shortens their digits is not modelled; the Go-side oracle
		// (one valid document, deterministic, no crash) judges these alone
		for i := 0; i < 60; i++ {
			ms := []rscp.Message{{Tag: rscp.EMS_POWER_PV, DataType: rscp.Float32, Value: math.Float32frombits(g.r.Uint32())},
				{Tag: rscp.EMS_POWER_BAT, DataType: rscp.Double64, Value: math.Float64frombits(g.r.Uint64())}}
			plain := plainFrame(ms, false, time.Unix(1, 0).UTC())
			for _, format := range []string{"json", "jsonsimple", "jsonmerged"} {
				got := loop.ask("out " + format + " " + hexOf(plain))
				prop := "pass"
				if strings.HasPrefix(got, "ok ") {
					txt, _ := unhex(got[3:])
					if _, ok := joTokens(txt); !ok {
						prop = "FAIL C13 the output is not one valid JSON document"
					}
				} else if got == "panic" || got == "loop-dead" {
					prop = "FAIL C13 sig=panic the output formatter panics"
				} else {
					prop = "FAIL C13 sig=" + failureSignature(ms, format) + " the tool cannot print this response in format " + format
				}
				cw.add("skip", "skip", "N jsonout random-float-bits", prop)
			}
		}
		for _, str := range []string{"K\xfcche", "bell\a", "del\x7f", "nul\x00byte", "\xff\xfe", "tab\tnew\nline", "quote\"back\\slash", "<html>&", "C:\\temp\\new", "50\\60 Hz", "trailing\\", "\\u0041BC", "\\", "\U0001F600", "\U000E0001", "\u2028\u2029", "é€"} {
			ms := []rscp.Message{{Tag: rscp.INFO_SERIAL_NUMBER, DataType: rscp.CString, Value: str},
				{Tag: rscp.BAT_DATA, DataType: rscp.Container, Value: []rscp.Message{{Tag: rscp.BAT_DEVICE_NAME, DataType: rscp.CString, Value: str}}}}
			plain := plainFrame(ms, false, time.Unix(1, 0).UTC())
			for _, format := range []string{"json", "jsonsimple", "jsonmerged"} {
				got := loop.ask("out " + format + " " + hexOf(plain))
				prop := "pass"
				if strings.HasPrefix(got, "ok ") {
					txt, _ := unhex(got[3:])
					if _, ok := joTokens(txt); !ok {
						prop = "FAIL C13 the output is not one valid JSON document for a string value " + fmt.Sprintf("%q", str)
					} else if why := structureOK(ms, format, txt); why != "" {
						prop = "FAIL C13 " + why
					}
				} else {
					prop = "FAIL C13 the tool cannot print a response with the string value " + fmt.Sprintf("%q", str) + " in format " + format
				}
				cw.add("skip", "skip", "N jsonout unusual-string", prop)
			}
		}
		// determinism across runs: keys spread over the whole 32-bit tag range, printed many times
		for i := 0; i < 6; i++ {
			var ms []rscp.Message
			for _, t := range []uint32{0x03800001, 0x7F800000, 0xFE800004, 0x80800001, g.r.Uint32() | 1<<23, g.r.Uint32() | 1<<23, g.r.Uint32() | 1<<23} {
				ms = append(ms, rscp.Message{Tag: rscp.Tag(t), DataType: rscp.UChar8, Value: uint8(g.pick(200))})
			}
			g.r.Shuffle(len(ms), func(a, b int) { ms[a], ms[b] = ms[b], ms[a] })
			plain := plainFrame(ms, false, time.Unix(1, 0).UTC())
			first := loop.ask("out jsonmerged " + hexOf(plain))
			prop := "pass"
			for k := 0; k < 15; k++ {
				if again := loop.ask("out jsonmerged " + hexOf(plain)); again != first {
					prop = "FAIL C13 the same response is printed differently from run to run (format jsonmerged)"
				}
			}
			impl := "err"
			if strings.HasPrefix(first, "ok ") {
				txt, _ := unhex(first[3:])
				if toks, ok := joTokens(txt); ok {
					impl = "ok " + toks
				}
			}
			cw.add("jout jsonmerged "+msgsString(ms), impl, "N jsonout far-apart-keys", prop)
		}
		// byte arrays of length 0, 1 and 2, top level, nested and twice under one tag
		for _, bs := range [][]byte{{}, {0}, {255, 1}} {
			m := rscp.Message{Tag: rscp.WB_EXTERN_DATA, DataType: rscp.ByteArray, Value: bs}
			run([]rscp.Message{m}, "byte-array-length", false)
			run([]rscp.Message{{Tag: rscp.BAT_DATA, DataType: rscp.Container, Value: []rscp.Message{m, m}}, m}, "byte-array-length nested", false)
		}
		for _, sec := range secEdges {
			for _, ns := range []int64{0, 5, 999999999} {
				tm := rscp.Message{Tag: rscp.INFO_UTC_TIME, DataType: rscp.Timestamp, Value: time.Unix(sec, ns).UTC()}
				run([]rscp.Message{tm}, fmt.Sprintf("time-edge sec=%d ns=%d", sec, ns), true)
				if ns == 0 {
					run([]rscp.Message{{Tag: rscp.BAT_DATA, DataType: rscp.Container, Value: []rscp.Message{tm}}}, fmt.Sprintf("time-edge sec=%d nested", sec), true)
				}
			}
		}
		// tags the package has no name for, in the upper half of the 32-bit range (they are printed as numbers; this
		// stream also runs against a 32-bit build of the tool)
		for _, t := range []rscp.Tag{0x80800001, 0x80000001, 0xff800001, 0xffffffff, 0x7f800001, 0x7fffffff} {
			u := rscp.Message{Tag: t, DataType: rscp.UInt16, Value: uint16(7)}
			run([]rscp.Message{u}, "unnamed-high-tag", false)
			run([]rscp.Message{u, {Tag: rscp.BAT_DATA, DataType: rscp.Container, Value: []rscp.Message{u, {Tag: t, DataType: rscp.Container, Value: []rscp.Message{u}}}}}, "unnamed-high-tag nested", false)
		}
		for _, f := range []float64{math.NaN(), math.Inf(1), math.Inf(-1)} {
			run([]rscp.Message{{Tag: rscp.EMS_POWER_PV, DataType: rscp.Double64, Value: f}}, "nan-inf", true)
			run([]rscp.Message{{Tag: rscp.EMS_POWER_PV, DataType: rscp.Float32, Value: float32(f)}}, "nan-inf", true)
		}
	}
}

// yearBeyondInt32: some time stamp of the tree lies in a year that does not fit 32 bits (with a margin of a year)
func yearBeyondInt32(ms []rscp.Message) bool {
	for _, m := range ms {
		switch v := m.Value.(type) {
		case time.Time:
			if y := v.Unix() / 31556952; y > 1<<31-1972 || y < -(1<<31)+1972 {
				return true
			}
		case []rscp.Message:
			if yearBeyondInt32(v) {
				return true
			}
		}
	}
	return false
}

// failureSignature names the known reason why encoding/json cannot print a response (known findings of C13)
func failureSignature(ms []rscp.Message, format string) string {
	sig := "unknown"
	var walk func(ms []rscp.Message)
	walk = func(ms []rscp.Message) {
		for _, m := range ms {
			switch v := m.Value.(type) {
			case float32:
				if math.IsNaN(float64(v)) || math.IsInf(float64(v), 0) {
					sig = "nan-inf-float"
				}
			case float64:
				if math.IsNaN(v) || math.IsInf(v, 0) {
					sig = "nan-inf-float"
				}
			case time.Time:
				if sig == "unknown" {
					if y := v.Year(); y > 9999 {
						sig = "year-above-9999"
					} else if y < 0 && format == "json" {
						sig = "negative-year-format-json"
					}
				}
			case []rscp.Message:
				walk(v)
			}
		}
	}
	walk(ms)
	return sig
}

// ---- Go-side structural oracle of C13, written from the property text --------------------------------------

func tagKeyGo(t rscp.Tag) string {
	b, _ := json.Marshal(t)
	var s string
	json.Unmarshal(b, &s)
	return s
}

// numericKeyWrong: a tag without a name is printed as the decimal number it is (an unsigned 32-bit value)
func numericKeyWrong(ms []rscp.Message) string {
	for _, m := range ms {
		k := tagKeyGo(m.Tag)
		if k != "" && (k[0] == '-' || (k[0] >= '0' && k[0] <= '9')) && k != strconv.FormatUint(uint64(m.Tag), 10) {
			return fmt.Sprintf("the tag %d without a name is printed as %q", uint32(m.Tag), k)
		}
		if c, ok := m.Value.([]rscp.Message); ok {
			if why := numericKeyWrong(c); why != "" {
				return why
			}
		}
	}
	return ""
}

func structureOK(ms []rscp.Message, format string, txt []byte) string {
	if why := numericKeyWrong(ms); why != "" {
		return why
	}
	dec := json.NewDecoder(bytes.NewReader(txt))
	dec.UseNumber()
	var v interface{}
	if err := dec.Decode(&v); err != nil {
		return "not JSON"
	}
	switch format {
	case "jsonmerged":
		o, ok := v.(map[string]interface{})
		if !ok {
			return "jsonmerged does not print an object"
		}
		return mergedOK(ms, o)
	case "jsonsimple":
		return simpleOK(ms, v)
	}
	return fullOK(ms, v)
}

func mergedOK(ms []rscp.Message, o map[string]interface{}) string {
	type group struct {
		containers [][]rscp.Message
		scalars    int
		last       rscp.Message // the last scalar that arrived under the key
	}
	groups := map[string]*group{}
	for _, m := range ms {
		k := tagKeyGo(m.Tag)
		if groups[k] == nil {
			groups[k] = &group{}
		}
		if c, ok := m.Value.([]rscp.Message); ok {
			groups[k].containers = append(groups[k].containers, c)
		} else {
			groups[k].scalars++
			groups[k].last = m
		}
	}
	if len(groups) != len(o) {
		return fmt.Sprintf("jsonmerged: %d keys for %d tags", len(o), len(groups))
	}
	for k, g := range groups {
		out, ok := o[k]
		if !ok {
			return "jsonmerged: key " + k + " is missing"
		}
		switch len(g.containers) {
		case 0:
			if why := leafOK(g.last, out, true); why != "" {
				return "jsonmerged: " + why
			}
			continue
		case 1:
			oo, ok := out.(map[string]interface{})
			if !ok {
				return "jsonmerged: the container under " + k + " is lost or misplaced"
			}
			if why := mergedOK(g.containers[0], oo); why != "" {
				return why
			}
		default:
			arr, ok := out.([]interface{})
			if !ok || len(arr) != len(g.containers) {
				return fmt.Sprintf("jsonmerged: key %s must hold the %d containers that arrived under it, in order", k, len(g.containers))
			}
			for i, el := range arr {
				oo, ok := el.(map[string]interface{})
				if !ok {
					return "jsonmerged: an element under " + k + " is not a container"
				}
				if why := mergedOK(g.containers[i], oo); why != "" {
					return why
				}
			}
		}
	}
	return ""
}

func simpleOK(ms []rscp.Message, v interface{}) string {
	arr, ok := v.([]interface{})
	if !ok || len(arr) != len(ms) {
		return "jsonsimple: not the ordered list of the messages"
	}
	for i, m := range ms {
		o, ok := arr[i].(map[string]interface{})
		if !ok || len(o) != 1 {
			return "jsonsimple: element is not a one-key object"
		}
		val, ok := o[tagKeyGo(m.Tag)]
		if !ok {
			return "jsonsimple: element is keyed by another tag"
		}
		if c, isC := m.Value.([]rscp.Message); isC {
			if why := simpleOK(c, val); why != "" {
				return why
			}
		} else if why := leafOK(m, val, true); why != "" {
			return "jsonsimple: " + why
		}
	}
	return ""
}

func fullOK(ms []rscp.Message, v interface{}) string {
	arr, ok := v.([]interface{})
	if !ok || len(arr) != len(ms) {
		if v == nil && len(ms) == 0 {
			return ""
		}
		return "json: not the list of the messages"
	}
	for i, m := range ms {
		o, ok := arr[i].(map[string]interface{})
		if !ok || o["Tag"] != tagKeyGo(m.Tag) || o["DataType"] != m.DataType.String() {
			return "json: message without its tag / data type"
		}
		if c, isC := m.Value.([]rscp.Message); isC {
			if why := fullOK(c, o["Value"]); why != "" {
				return why
			}
		} else if why := leafOK(m, o["Value"], false); why != "" {
			return "json: " + why
		}
	}
	return ""
}

// leafOK: the printed value of a scalar is the value the device sent (Go-side oracle of C13, independent of the model):
// numbers exactly (floats: the text parses back to the same bits), strings as they are (invalid UTF-8 replaced the way
// encoding/json does), byte arrays as numbers (map formats) or base64 (format json), time stamps as the same instant —
// except the documented rewrite of negative years to 1970 in the map formats.
func leafOK(m rscp.Message, out interface{}, inMap bool) string {
	num := func() (string, bool) {
		n, ok := out.(json.Number)
		return n.String(), ok
	}
	bad := func(want string) string {
		return fmt.Sprintf("%s value %s is printed as %v", m.DataType, want, trunc(fmt.Sprint(out), 60))
	}
	switch v := m.Value.(type) {
	case nil:
		if out != nil {
			return bad("null")
		}
	case bool:
		if b, ok := out.(bool); !ok || b != v {
			return bad(fmt.Sprint(v))
		}
	case int8, uint8, int16, uint16, int32, uint32, int64, uint64:
		if n, ok := num(); !ok || n != fmt.Sprint(v) {
			return bad(fmt.Sprint(v))
		}
	case float32:
		n, ok := num()
		f, err := strconv.ParseFloat(n, 32)
		if !ok || err != nil || math.Float32bits(float32(f)) != math.Float32bits(v) {
			return bad(fmt.Sprintf("%g (bits %08x)", v, math.Float32bits(v)))
		}
	case float64:
		n, ok := num()
		f, err := strconv.ParseFloat(n, 64)
		if !ok || err != nil || math.Float64bits(f) != math.Float64bits(v) {
			return bad(fmt.Sprintf("%g (bits %016x)", v, math.Float64bits(v)))
		}
	case string:
		if s, ok := out.(string); !ok || s != string([]rune(v)) { // every invalid byte becomes U+FFFD, as encoding/json does it
			return bad(fmt.Sprintf("%q", trunc(v, 40)))
		}
	case []byte:
		if inMap {
			arr, ok := out.([]interface{})
			if !ok || len(arr) != len(v) {
				return bad("byte array")
			}
			for i, b := range v {
				if n, ok := arr[i].(json.Number); !ok || n.String() != fmt.Sprint(b) {
					return bad("byte array")
				}
			}
		} else if len(v) == 0 {
			if s, ok := out.(string); out != nil && !(ok && s == "") {
				return bad("empty byte array")
			}
		} else if s, ok := out.(string); !ok || s != base64.StdEncoding.EncodeToString(v) {
			return bad("byte array")
		}
	case time.Time:
		want := v
		if inMap && v.Year() < 0 {
			want = time.Unix(0, 0).UTC()
		}
		s, ok := out.(string)
		t, err := time.Parse(time.RFC3339Nano, s)
		if !ok || err != nil || !t.Equal(want) {
			return bad(want.Format(time.RFC3339Nano))
		}
	case rscp.RscpError:
		if s, ok := out.(string); !ok || s != v.String() {
			return bad(v.String())
		}
	}
	return ""
}
