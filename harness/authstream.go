package main

import (
	"fmt"
	"math"
	"strings"
	"time"

	"github.com/spali/go-rscp/rscp"
)

// stream auth (C09): every kind of reply to the authentication request × what the caller does next

func authValues(dt rscp.DataType) []interface{} {
	switch dt {
	case rscp.None:
		return []interface{}{nil}
	case rscp.Bool:
		return []interface{}{false, true}
	case rscp.Char8:
		return []interface{}{int8(0), int8(1), int8(10), int8(-128), int8(127)}
	case rscp.UChar8, rscp.Bitfield:
		return []interface{}{uint8(0), uint8(1), uint8(10), uint8(255)}
	case rscp.Int16:
		return []interface{}{int16(0), int16(10), int16(math.MinInt16)}
	case rscp.UInt16:
		return []interface{}{uint16(0), uint16(10), uint16(65535)}
	case rscp.Int32:
		return []interface{}{int32(0), int32(1), int32(10), int32(256), int32(math.MaxInt32), int32(math.MinInt32), int32(-1)}
	case rscp.Uint32:
		return []interface{}{uint32(0), uint32(10), uint32(math.MaxUint32)}
	case rscp.Int64:
		return []interface{}{int64(0), int64(10), int64(math.MinInt64)}
	case rscp.Uint64:
		return []interface{}{uint64(0), uint64(10), uint64(math.MaxUint64)}
	case rscp.Float32:
		return []interface{}{float32(0), float32(10), float32(math.NaN())}
	case rscp.Double64:
		return []interface{}{float64(0), float64(10), math.Inf(1)}
	case rscp.CString:
		return []interface{}{"", "10", "\x00"}
	case rscp.Container:
		return []interface{}{[]rscp.Message{}, []rscp.Message{{Tag: rscp.RSCP_AUTHENTICATION, DataType: rscp.UChar8, Value: uint8(10)}}}
	case rscp.Timestamp:
		return []interface{}{time.Unix(0, 0).UTC(), time.Unix(10, 10).UTC()}
	case rscp.ByteArray:
		return []interface{}{[]byte{}, []byte{10}}
	case rscp.Error:
		return []interface{}{rscp.RscpError(0), rscp.RscpError(10), rscp.RscpError(math.MaxUint32)}
	}
	return nil
}

func init() {
	streams["auth"] = func(g *gen, cw *caseWriter, n int, thorough bool) {
		// credentials around the size an authentication request can carry: it is transmitted exactly, or not at all
		for _, l := range []int{1, 300, 65499, 65500, 65501, 65510, 65536, 65541, 70000, 131072} {
			for _, longUser := range []bool{false, true} {
				user, pw := "u", strings.Repeat("p", l)
				if longUser {
					user, pw = strings.Repeat("u", l), "p"
				}
				s, err := newSession(user, pw, "authkey", 120*time.Millisecond, 1)
				if err != nil {
					continue
				}
				c := &callSpec{kind: "S", dialOk: true, writeOk: true, reqs: g.nonceRequest(0)}
				c.auth = frameReply([]rscp.Message{{Tag: rscp.RSCP_AUTHENTICATION, DataType: rscp.UChar8, Value: uint8(10)}})
				c.user = frameReply(replyFor(c.reqs, 0))
				r := s.call(c)
				prop := "pass"
				wantAuth := msgsString([]rscp.Message{{Tag: rscp.RSCP_REQ_AUTHENTICATION, DataType: rscp.Container, Value: []rscp.Message{
					{Tag: rscp.RSCP_AUTHENTICATION_USER, DataType: rscp.CString, Value: user}, {Tag: rscp.RSCP_AUTHENTICATION_PASSWORD, DataType: rscp.CString, Value: pw}}}})
				if i := strings.Index(r, "sent 0 "); i >= 0 {
					first := r[i+7:]
					if j := strings.Index(first, " , "); j >= 0 {
						first = first[:j]
					}
					if first != wantAuth {
						prop = "FAIL C09 the first frame on the connection is not the authentication request with exactly the configured user name and password: " + trunc(first, 100)
					}
				}
				s.close()
				cw.add(fmt.Sprintf("hist %s %s | %s", hexOf([]byte(user)), hexOf([]byte(pw)), c.op()), r, fmt.Sprintf("N auth credentials-length=%d", l), prop)
			}
		}
		tags := []rscp.Tag{rscp.RSCP_AUTHENTICATION, rscp.RSCP_USER_LEVEL, rscp.RSCP_GENERAL_ERROR, rscp.RSCP_REQ_AUTHENTICATION, 0x00800099, 0xFFFFFFFF}
		// every tag that differs from RSCP_AUTHENTICATION in one bit (with a granting value only): no look-alike is accepted
		nearTags := map[rscp.Tag]bool{}
		for b := 0; b < 32; b++ {
			t := rscp.RSCP_AUTHENTICATION ^ rscp.Tag(1)<<uint(b)
			nearTags[t] = true
			tags = append(tags, t)
		}
		grant := []rscp.Message{{Tag: rscp.RSCP_AUTHENTICATION, DataType: rscp.UChar8, Value: uint8(10)}}
		for _, tag := range tags {
			for _, dt := range definedTypes {
				if nearTags[tag] && dt != rscp.UChar8 && dt != rscp.Int32 {
					continue
				}
				for vi, v := range authValues(dt) {
					if nearTags[tag] && vi != 2 {
						continue
					}
					for extra := 0; extra < 3; extra++ {
						if extra > 0 && (nearTags[tag] || !(tag == rscp.RSCP_AUTHENTICATION || dt == rscp.UChar8)) {
							continue
						}
						reply := []rscp.Message{{Tag: tag, DataType: dt, Value: v}}
						for k := 0; k < extra; k++ {
							// further messages must not matter, whatever they say
							reply = append(reply, []rscp.Message{grant[0], {Tag: rscp.RSCP_AUTHENTICATION, DataType: rscp.UChar8, Value: uint8(0)}}[(k+extra)%2])
						}
						for next := 0; next < 3; next++ {
							if nearTags[tag] && next > 0 {
								continue
							}
							s, err := newSession("authuser", "authpw", "authkey", 120*time.Millisecond, 1)
							if err != nil {
								continue
							}
							var calls []*callSpec
							c1 := &callSpec{kind: "S", dialOk: true, writeOk: true, reqs: g.nonceRequest(0)}
							c1.auth = frameReply(reply)
							c1.user = frameReply(replyFor(c1.reqs, 0))
							calls = append(calls, c1)
							if next == 1 {
								calls = append(calls, &callSpec{kind: "D"})
							}
							c2 := &callSpec{kind: []string{"S", "s", "S"}[next], dialOk: true, writeOk: true, reqs: g.nonceRequest(1)}
							if c2.kind == "s" {
								c2.reqs = c2.reqs[:1]
							}
							c2.auth = frameReply(grant)
							if next == 2 {
								c2.auth = frameReply(reply) // the peer keeps answering the same way
							}
							c2.user = frameReply(replyFor(c2.reqs, 1))
							calls = append(calls, c2)
							var ops, res []string
							prop := "pass"
							for _, c := range calls {
								r := s.call(c)
								ops = append(ops, c.op())
								res = append(res, r)
								if strings.HasPrefix(r, "panic") || strings.HasPrefix(r, "hang") {
									prop = "FAIL C09 client " + strings.SplitN(r, " ", 2)[0] + " on an authentication reply"
								}
							}
							// Go-side oracle: the user request of call 1 may reach the peer only if the reply grants a level
							granted := false
							if tag == rscp.RSCP_AUTHENTICATION {
								switch x := v.(type) {
								case uint8:
									granted = x != 0
								case int32:
									granted = x != 0
								}
							}
							userSent := strings.Count(res[0], "sent ") >= 2
							if userSent != granted && prop == "pass" {
								prop = fmt.Sprintf("FAIL C09 user request transmitted=%v although the authentication reply grants=%v", userSent, granted)
							}
							// ... and against a peer that grants the login and answers, the call succeeds (C08: a healthy peer)
							if granted && !strings.HasPrefix(res[0], "ok") && !strings.Contains(prop, "FAIL C09 client") {
								addVerdict(&prop, "FAIL C08 the peer grants the login and answers the request, and the call does not succeed: "+trunc(res[0], 100))
							}
							s.close()
							cw.add(fmt.Sprintf("hist %s %s | %s", hexOf([]byte("authuser")), hexOf([]byte("authpw")), strings.Join(ops, " | ")), strings.Join(res, " | "),
								fmt.Sprintf("N auth tag=%d dt=%d extra=%d next=%d", uint32(tag), dt, extra, next), prop)
						}
					}
				}
			}
		}
	}
}
