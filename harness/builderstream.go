package main

import (
	"encoding/json"
	"errors"
	"fmt"
	"github.com/sirupsen/logrus"
	"io"
	"strings"
	"time"

	"github.com/spali/go-rscp/rscp"
	slicereader "github.com/spali/go-slicereader"
)

// stream builder (C18): CreateRequest / CreateRequests on flat argument lists

func argTok(a interface{}) string {
	switch x := a.(type) {
	case rscp.Tag:
		return fmt.Sprintf("T %d", uint32(x))
	case rscp.DataType:
		return fmt.Sprintf("D %d", uint8(x))
	}
	var sb strings.Builder
	sb.WriteString("V ")
	showVal(&sb, a)
	return sb.String()
}

func argsOp(args []interface{}) string {
	var ts []string
	for _, a := range args {
		ts = append(ts, argTok(a))
	}
	return strings.Join(ts, " , ")
}

func builderErr(err error) string {
	if errors.Is(err, slicereader.EOS) {
		return "eos"
	}
	return errClass(err)
}

func buildRun(args []interface{}) string {
	defer func() { recover() }()
	m, err := rscp.CreateRequest(args...)
	if err != nil {
		return "err " + builderErr(err)
	}
	return "ok " + msgsString([]rscp.Message{*m})
}

func buildCase(cw *caseWriter, args []interface{}, label string) {
	got := func() (s string) {
		defer func() {
			if r := recover(); r != nil {
				s = "panic"
			}
		}()
		return buildRun(args)
	}()
	if got == "" {
		got = "panic"
	}
	prop := "pass"
	// the same call at trace level gives the same result
	atTrace := func() (s string) {
		old, oldOut := rscp.Log.GetLevel(), rscp.Log.Out
		rscp.Log.SetOutput(io.Discard)
		rscp.Log.SetLevel(logrus.TraceLevel)
		defer func() {
			rscp.Log.SetLevel(old)
			rscp.Log.SetOutput(oldOut)
			if r := recover(); r != nil {
				s = "panic"
			}
		}()
		return buildRun(args)
	}()
	if atTrace == "" {
		atTrace = "panic"
	}
	if got == "panic" {
		prop = "FAIL C18 CreateRequest panics"
	} else if atTrace != got {
		prop = "FAIL C18 CreateRequest depends on the log level: " + trunc(got, 80) + " at the default level, " + trunc(atTrace, 80) + " at trace level"
	} else if want := refBuildTop(args); want != got {
		prop = "FAIL C18 the documented grammar gives " + trunc(want, 100) + " but CreateRequest " + trunc(got, 100)
	}
	cw.add("build "+argsOp(args), got, "N builder "+label, prop)
}

func buildsCase(cw *caseWriter, lists [][]interface{}, label string) {
	got := func() (s string) {
		defer func() {
			if r := recover(); r != nil {
				s = "panic"
			}
		}()
		ms, err := rscp.CreateRequests(lists...)
		if err != nil {
			return "err " + builderErr(err)
		}
		return "ok " + msgsString(ms)
	}()
	// Go-side oracle: the multi form equals the single form applied to each list in turn
	prop := "pass"
	want := ""
	if len(lists) == 0 {
		want = "err noArguments"
	} else {
		var ms []rscp.Message
		for _, l := range lists {
			r := buildRun(l)
			if !strings.HasPrefix(r, "ok ") {
				want = r
				break
			}
			m, _ := rscp.CreateRequest(l...)
			ms = append(ms, *m)
		}
		if want == "" {
			want = "ok " + msgsString(ms)
		}
	}
	if got != want {
		prop = "FAIL C18 CreateRequests differs from CreateRequest applied to each list: " + trunc(got, 80) + " vs " + trunc(want, 80)
	}
	var ops []string
	for _, l := range lists {
		ops = append(ops, argsOp(l))
	}
	cw.add("builds "+fmt.Sprint(len(lists))+" ; "+strings.Join(ops, " ; "), got, "N builder-multi "+label, prop)
}

func (g *gen) argAlphabet() []interface{} {
	var al []interface{}
	// a known tag of every data type (request side where it exists), container tags, unknown tags
	for _, dt := range definedTypes {
		if ts := g.byType[dt]; len(ts) > 0 {
			al = append(al, ts[g.pick(len(ts))])
		}
	}
	al = append(al, rscp.BAT_REQ_DATA, rscp.RSCP_REQ_AUTHENTICATION, rscp.Tag(0x7f000001), rscp.Tag(0xffffffff), rscp.Tag(0), rscp.Tag(1), g.known[0], g.known[len(g.known)-1])
	// data-type constants
	al = append(al, rscp.None, rscp.Container, rscp.CString, rscp.DataType(0x42))
	// Go values of every kind, nil included
	b := 100
	for _, dt := range definedTypes {
		if dt != rscp.None {
			al = append(al, g.value(dt, 1, &b))
		}
	}
	al = append(al, nil, 5, struct{}{}, "", []rscp.Message{})
	// pointers: the builder keeps the argument itself, whatever it points to (typed nil pointers included)
	pb, ps, pu := true, "pointee", uint16(9)
	al = append(al, &pb, &ps, &pu, (*bool)(nil), (*string)(nil), (*[]rscp.Message)(nil))
	return al
}

func init() {
	streams["builder"] = func(g *gen, cw *caseWriter, n int, thorough bool) {
		al := g.argAlphabet()
		buildCase(cw, nil, "empty")
		// the smallest and largest tag numbers, known and unknown, in every position
		for _, t := range []rscp.Tag{0, 1, 2, g.known[0], g.known[len(g.known)-1], 0xffffffff, 0xfffffffe, 0x80000000, 0x00800000, 0x007fffff} {
			buildCase(cw, []interface{}{t}, "extreme-tag alone")
			buildCase(cw, []interface{}{rscp.BAT_REQ_DATA, t}, "extreme-tag nested")
			buildCase(cw, []interface{}{rscp.BAT_REQ_DATA, t, g.byType[rscp.None][0]}, "extreme-tag nested first")
			buildCase(cw, []interface{}{rscp.BAT_REQ_DATA, g.byType[rscp.None][0], t}, "extreme-tag nested last")
			buildsCase(cw, [][]interface{}{{t}, {rscp.BAT_REQ_DATA, t}}, "extreme-tag multi")
		}
		// exhaustive short lists over a reduced alphabet (one representative per class) …
		small := []interface{}{g.byType[rscp.None][0], g.byType[rscp.CString][0], g.byType[rscp.UInt16][0], rscp.BAT_REQ_DATA,
			rscp.Tag(0x7f000001), rscp.CString, "v", uint16(7), nil, 5}
		maxLen := 3
		if thorough {
			maxLen = 4
		}
		var rec func(prefix []interface{}, l int)
		rec = func(prefix []interface{}, l int) {
			if l == 0 {
				buildCase(cw, append([]interface{}{}, prefix...), fmt.Sprintf("exhaustive len=%d", len(prefix)))
				return
			}
			for _, a := range small {
				rec(append(prefix, a), l-1)
			}
		}
		for l := 1; l <= maxLen; l++ {
			rec(nil, l)
		}
		// … and sampled longer lists over the full alphabet, biased towards grammatical ones
		for i := 0; i < n; i++ {
			l := 1 + g.pick(30)
			var args []interface{}
			for len(args) < l {
				if g.chance(0.6) {
					// a grammatical item
					t := g.known[g.pick(len(g.known))]
					args = append(args, t)
					if dt := t.DataType(); dt != rscp.None && dt != rscp.Container {
						b := 50
						args = append(args, g.value(dt, 0, &b))
					}
				} else {
					args = append(args, al[g.pick(len(al))])
				}
			}
			if g.chance(0.5) {
				args = append([]interface{}{rscp.BAT_REQ_DATA}, args...)
			}
			buildCase(cw, args, fmt.Sprintf("sampled len=%d", len(args)))
		}
		// deep nesting: chains of 1..12 container tags (different and repeated ones), bare, followed by items, and with
		// items between the levels
		var containers []rscp.Tag
		for _, t := range g.known {
			if t.DataType() == rscp.Container && len(containers) < 40 {
				containers = append(containers, t)
			}
		}
		item := func() []interface{} {
			t := g.known[g.pick(len(g.known))]
			for t.DataType() == rscp.Container {
				t = g.known[g.pick(len(g.known))]
			}
			if t.DataType() == rscp.None {
				return []interface{}{t}
			}
			b := 50
			return []interface{}{t, g.value(t.DataType(), 0, &b)}
		}
		for _, depth := range []int{1, 2, 3, 4, 5, 6, 7, 8, 9, 10, 11, 12, 16, 31, 32, 33, 34, 40, 64, 65, 100, 129, 257} {
			for variant := 0; variant < 4; variant++ {
				var args []interface{}
				for k := 0; k < depth; k++ {
					if variant%2 == 0 {
						args = append(args, rscp.BAT_REQ_DATA)
					} else {
						args = append(args, containers[g.pick(len(containers))])
					}
					if variant == 3 && k < depth-1 {
						args = append(args, item()...)
					}
				}
				if variant >= 1 {
					for j := 0; j <= g.pick(3); j++ {
						args = append(args, item()...)
					}
				}
				buildCase(cw, args, fmt.Sprintf("nested depth=%d variant=%d", depth, variant))
				if variant == 2 {
					buildsCase(cw, [][]interface{}{args, args[:len(args)-1], {rscp.BAT_REQ_DATA}}, fmt.Sprintf("nested depth=%d", depth))
				}
			}
		}
		// unknown tags next to known ones: a tag that is not in the table takes no value, whatever its neighbours in the
		// number space are (the same number with the request/response bit flipped, ±1, the next group)
		for k := 0; k < 40; k++ {
			t := g.known[g.pick(len(g.known))]
			for _, u := range []rscp.Tag{t ^ (1 << 23), t + 1, t - 1, t ^ 0x00010000, t | 0x80000000} {
				if u.IsATag() {
					continue
				}
				buildCase(cw, []interface{}{u}, "unknown-neighbour alone")
				buildCase(cw, []interface{}{u, uint16(0)}, "unknown-neighbour with value")
				buildCase(cw, []interface{}{rscp.BAT_REQ_DATA, u, uint16(0)}, "unknown-neighbour nested with value")
				buildCase(cw, []interface{}{rscp.BAT_REQ_DATA, u, g.byType[rscp.None][0]}, "unknown-neighbour nested")
			}
		}
		// values at and beyond what a frame can carry: the builder does not care about sizes
		for _, l := range []int{65528, 65529, 70000, 131073} {
			v := strings.Repeat("v", l)
			buildCase(cw, []interface{}{g.byType[rscp.CString][0], v}, fmt.Sprintf("value-length=%d", l))
			buildCase(cw, []interface{}{rscp.BAT_REQ_DATA, g.byType[rscp.ByteArray][0], []byte(v), g.byType[rscp.None][0]}, fmt.Sprintf("value-length=%d nested", l))
		}
		// strings that spell tag names, where a tag is expected and where a value is expected
		for _, name := range []string{"INFO_REQ_UTC_TIME", "BAT_REQ_DATA", "RSCP_AUTHENTICATION_USER", "info_req_utc_time", "8388609", "Tag(5)"} {
			buildCase(cw, []interface{}{name}, "tag-name-string alone")
			buildCase(cw, []interface{}{rscp.BAT_REQ_DATA, name}, "tag-name-string nested")
			buildCase(cw, []interface{}{rscp.BAT_REQ_DATA, name, "x"}, "tag-name-string nested with value")
			buildCase(cw, []interface{}{g.byType[rscp.CString][0], name}, "tag-name-string as value")
		}
		// tags without a declared type stay value-less whatever the process has read from JSON before
		for _, js := range []string{`{"Tag":16779127,"DataType":"CString","Value":"x"}`, `{"Tag":"RSCP_REQ_AUTH_CHALLENGE","DataType":"UInt16","Value":5}`,
			`{"Tag":16779128,"DataType":"Container","Value":[]}`, `{"Tag":"` + g.byType[rscp.None][0].String() + `","DataType":"Bool","Value":true}`} {
			var m rscp.Message
			_ = json.Unmarshal([]byte(js), &m)
		}
		for _, t := range []rscp.Tag{16779127, 16779128, g.byType[rscp.None][0]} {
			buildCase(cw, []interface{}{t}, "untyped tag after JSON with explicit type")
			buildCase(cw, []interface{}{rscp.BAT_REQ_DATA, t, "x"}, "untyped tag after JSON with explicit type, nested with value")
			buildCase(cw, []interface{}{rscp.BAT_REQ_DATA, t, g.byType[rscp.None][0]}, "untyped tag after JSON with explicit type, nested")
		}
		// the index child of a container anywhere among its children: children keep the order of the arguments
		for _, v := range []struct{ c, idx, r1, r2 rscp.Tag }{{rscp.BAT_REQ_DATA, rscp.BAT_INDEX, rscp.BAT_REQ_RSOC, rscp.BAT_REQ_STATUS_CODE},
			{rscp.PVI_REQ_DATA, rscp.PVI_INDEX, rscp.PVI_REQ_ON_GRID, rscp.PVI_REQ_STATE}, {rscp.PM_REQ_DATA, rscp.PM_INDEX, rscp.PM_REQ_POWER_L1, rscp.PM_REQ_POWER_L2}} {
			buildCase(cw, []interface{}{v.c, v.r1, v.idx, uint16(1), v.r2}, "index child in the middle")
			buildCase(cw, []interface{}{v.c, v.r1, v.r2, v.idx, uint16(1)}, "index child last")
			buildCase(cw, []interface{}{v.c, v.idx, uint16(1), v.r1, v.idx, uint16(2), v.r2}, "index child twice")
		}
		// arguments of Go types the tables do not know (a time.Duration, a json.Number, a pointer) under tags of every data
		// type, time stamps first: the item's value is the argument itself
		{
			var tags []rscp.Tag
			tags = append(tags, g.byType[rscp.Timestamp]...)
			for _, dt := range definedTypes {
				if ts := g.byType[dt]; len(ts) > 0 && dt != rscp.Timestamp && dt != rscp.None && dt != rscp.Container {
					tags = append(tags, ts[0])
				}
			}
			n := 15
			for _, t := range tags {
				for _, v := range []interface{}{15 * time.Minute, time.Duration(0), json.Number("7"), &n, time.Month(3)} {
					buildCase(cw, []interface{}{t, v}, "argument of a foreign Go type")
					if cs := g.byType[rscp.Container]; len(cs) > 0 {
						buildCase(cw, []interface{}{cs[0], t, v, t, v}, "argument of a foreign Go type, nested")
					}
				}
			}
		}
		// lists that are nil slices are lists without arguments
		buildsCase(cw, [][]interface{}{nil}, "one nil list")
		buildsCase(cw, [][]interface{}{{g.byType[rscp.None][0]}, nil, {g.byType[rscp.None][0]}}, "nil list in the middle")
		buildsCase(cw, [][]interface{}{{g.byType[rscp.None][0]}, nil}, "nil list last")
		buildsCase(cw, [][]interface{}{nil, {g.byType[rscp.None][0]}}, "nil list first")
		// a slice as an argument (a forgotten `...`), alone and among others: a value where a tag is expected
		for _, inner := range [][]interface{}{{}, {g.byType[rscp.None][0]}, {g.byType[rscp.CString][0], "v"}, {g.byType[rscp.CString][0]}, {rscp.BAT_REQ_DATA, g.byType[rscp.None][0]}} {
			buildCase(cw, []interface{}{inner}, "slice-as-argument alone")
			buildCase(cw, []interface{}{inner, inner}, "slice-as-argument twice")
			buildCase(cw, []interface{}{rscp.BAT_REQ_DATA, inner}, "slice-as-argument nested")
			buildCase(cw, []interface{}{g.byType[rscp.CString][0], inner}, "slice-as-argument as value")
			buildsCase(cw, [][]interface{}{{inner}}, "slice-as-argument multi")
		}
		buildCase(cw, []interface{}{[]rscp.Tag{g.byType[rscp.None][0]}}, "tag-slice-as-argument")
		buildCase(cw, []interface{}{[]rscp.Message{}}, "message-slice-as-argument")
		// values of the package's own enumeration types after value-carrying tags: RscpError is the value type of the tags of
		// data type Error, AuthLevel is a plain value everywhere; only Tag and DataType are "not a value"
		for _, t := range append(append([]rscp.Tag{}, g.byType[rscp.Error]...), g.byType[rscp.UChar8][0], g.byType[rscp.CString][0], g.byType[rscp.Uint32][0]) {
			for _, v := range []interface{}{rscp.RscpError(2), rscp.RscpError(0), rscp.RscpError(4294967295), rscp.AuthLevel(1), rscp.Tag(5), rscp.Bool} {
				buildCase(cw, []interface{}{t, v}, "enum-typed value")
				buildCase(cw, []interface{}{rscp.BAT_REQ_DATA, t, v, g.byType[rscp.None][0]}, "enum-typed value nested")
			}
		}
		// pointer arguments in value position
		for _, ptr := range al[len(al)-6:] {
			for _, t := range []rscp.Tag{g.byType[rscp.Bool][0], g.byType[rscp.CString][0], g.byType[rscp.UInt16][0]} {
				buildCase(cw, []interface{}{t, ptr}, "pointer-value")
				buildCase(cw, []interface{}{rscp.BAT_REQ_DATA, t, ptr, g.byType[rscp.None][0]}, "pointer-value nested")
			}
		}
		// multi-request form
		buildsCase(cw, nil, "none")
		for i := 0; i < n/4+5; i++ {
			var lists [][]interface{}
			for k := 0; k <= g.pick(4); k++ {
				var args []interface{}
				for j := 0; j <= g.pick(4); j++ {
					if g.chance(0.85) {
						t := g.known[g.pick(len(g.known))]
						args = append(args, t)
						if dt := t.DataType(); dt != rscp.None && dt != rscp.Container {
							b := 50
							args = append(args, g.value(dt, 0, &b))
						}
					} else {
						args = append(args, al[g.pick(len(al))])
					}
				}
				lists = append(lists, args)
			}
			buildsCase(cw, lists, fmt.Sprintf("lists=%d", len(lists)))
		}
		// large grammatical lists: sizes play no role in the builder
		big := strings.Repeat("x", 40000)
		buildsCase(cw, [][]interface{}{{g.byType[rscp.CString][0], big}, {g.byType[rscp.CString][0], big}}, "two-large-values")
	}
}

// refBuild: the documented grammar of CreateRequest, written from the doc comment and the property text
// (independent of read_request_slice.go and of the Lean model): returns the message, the rest, or an error class.
func refBuild(args []interface{}) (*rscp.Message, []interface{}, string) {
	if len(args) == 0 {
		return nil, nil, "eos"
	}
	tag, ok := args[0].(rscp.Tag)
	if !ok {
		return nil, nil, "validTag"
	}
	rest := args[1:]
	dt := tag.DataType()
	if !tag.IsATag() {
		dt = rscp.None // a tag the vocabulary does not name takes no value and opens no container
	}
	switch dt {
	case rscp.None:
		return &rscp.Message{Tag: tag, DataType: dt}, rest, ""
	case rscp.Container:
		children := []rscp.Message{}
		for len(rest) > 0 {
			m, r, e := refBuild(rest)
			if e != "" {
				return nil, nil, e
			}
			children = append(children, *m)
			rest = r
		}
		return &rscp.Message{Tag: tag, DataType: dt, Value: children}, nil, ""
	}
	if len(rest) == 0 {
		return nil, nil, "missingValue"
	}
	switch rest[0].(type) {
	case rscp.Tag, rscp.DataType:
		return nil, nil, "typeMismatch"
	}
	return &rscp.Message{Tag: tag, DataType: dt, Value: rest[0]}, rest[1:], ""
}

func refBuildTop(args []interface{}) string {
	m, _, e := refBuild(args)
	if e != "" {
		return "err " + e
	}
	return "ok " + msgsString([]rscp.Message{*m})
}
