package main

import (
	"bytes"
	"encoding/json"
	"fmt"
	"regexp"
	"strconv"
	"strings"
	"sync"
	"time"

	"github.com/sirupsen/logrus"
	"github.com/spali/go-rscp/rscp"
)

// stream log (C11): (a) how messages are rendered as text, against the model's `render`; (b) whole sessions at
// every log level with the log captured and scanned for the password as text and inside byte dumps.

var logMu sync.Mutex

func renderRun(ms []rscp.Message) string {
	return hexOf([]byte(fmt.Sprintf("%s", ms)))
}

func (g *gen) secret() string {
	const al = "abcdefghijklmnopqrstuvwxyzABCDEFGHIJKLMNOPQRSTUVWXYZ0123456789"
	b := make([]byte, 14+g.pick(8))
	for i := range b {
		b[i] = al[g.pick(len(al))]
	}
	if g.chance(0.4) {
		// a pass phrase: words separated by blanks, tabs, line breaks, with quotes, backslashes, non-ASCII letters
		seps := []string{" ", " ", "\t", "\n", "\"", "\\", "ä", " \x01"}
		out := ""
		for k := 0; k < 1+g.pick(3) && len(b) > 1; k++ {
			i := 1 + g.pick(len(b)-1)
			out += string(b[:i]) + seps[g.pick(len(seps))]
			b = b[i:]
		}
		return "S3c" + out + string(b)
	}
	return "S3c" + string(b)
}

// secretForms: the ways a secret can show up in a text: itself, Go-quoted, and its longest run of letters and
// digits (at least 6 of them)
func secretForms(secret string) []string {
	forms := []string{secret}
	if q := strconv.Quote(secret); q[1:len(q)-1] != secret {
		forms = append(forms, q[1:len(q)-1])
	}
	if q := strconv.QuoteToASCII(secret); q[1:len(q)-1] != secret {
		forms = append(forms, q[1:len(q)-1])
	}
	best, cur := "", ""
	for _, r := range secret + " " {
		if r < 128 && (r >= '0' && r <= '9' || r >= 'a' && r <= 'z' || r >= 'A' && r <= 'Z') {
			cur += string(r)
		} else {
			if len(cur) > len(best) {
				best = cur
			}
			cur = ""
		}
	}
	if len(best) >= 6 && best != secret {
		forms = append(forms, best)
	}
	return forms
}

func containsAnyForm(text, secret string) bool {
	for _, f := range secretForms(secret) {
		if strings.Contains(text, f) {
			return true
		}
	}
	return false
}

// simple-leaf messages (what the model can print without a model of fmt): strings, small unsigned numbers, bools, nil
func (g *gen) printable(depth int, secrets *[]string) rscp.Message {
	secretTags := []rscp.Tag{rscp.RSCP_AUTHENTICATION_PASSWORD, rscp.RSCP_REQ_SET_ENCRYPTION_PASSPHRASE}
	t := g.tag()
	isSecret := g.chance(0.3)
	if isSecret {
		t = secretTags[g.pick(2)]
	}
	if depth > 0 && g.chance(0.35) {
		var ch []rscp.Message
		for i := 0; i <= g.pick(3); i++ {
			ch = append(ch, g.printable(depth-1, secrets))
		}
		if g.chance(0.15) {
			ch = []rscp.Message{}
		}
		if isSecret {
			// everything below a secret tag is hidden as well
			var walk func(ms []rscp.Message)
			walk = func(ms []rscp.Message) {
				for _, m := range ms {
					if s, ok := m.Value.(string); ok {
						*secrets = append(*secrets, s)
					}
					if c, ok := m.Value.([]rscp.Message); ok {
						walk(c)
					}
				}
			}
			walk(ch)
		}
		return rscp.Message{Tag: t, DataType: rscp.Container, Value: ch}
	}
	switch g.pick(5) {
	case 0:
		return rscp.Message{Tag: t, DataType: rscp.None}
	case 1:
		return rscp.Message{Tag: t, DataType: rscp.Bool, Value: g.chance(0.5)}
	case 2:
		return rscp.Message{Tag: t, DataType: rscp.DataType([]int{3, 5, 7, 6, 0x42}[g.pick(5)]), Value: uint32(g.r.Uint32())}
	}
	s := g.secret()
	if isSecret {
		*secrets = append(*secrets, s)
	}
	return rscp.Message{Tag: t, DataType: rscp.CString, Value: s}
}

var dumpRe = regexp.MustCompile(`\[\]byte\{([^}]*)\}`)

// containsSecret looks for the secret as text and inside every `[]byte{0x.., …}` dump of the log
func containsSecret(log string, secret string) string {
	if containsAnyForm(log, secret) {
		return "as text"
	}
	received := false
	for _, line := range strings.Split(log, "\n") {
		for _, m := range dumpRe.FindAllStringSubmatch(line, -1) {
			var bs []byte
			for _, f := range strings.Split(m[1], ",") {
				f = strings.TrimSpace(f)
				if v, err := strconv.ParseUint(strings.TrimPrefix(f, "0x"), 16, 8); err == nil {
					bs = append(bs, byte(v))
				}
			}
			if containsAnyForm(string(bs), secret) {
				if strings.Contains(line, "read plain") {
					received = true // what the peer sent
					continue
				}
				return "inside a dump of frame bytes"
			}
		}
	}
	if received {
		return "inside a dump of RECEIVED frame bytes"
	}
	return ""
}

// logSession runs one scripted session at log level `level`; returns the captured log, the logger level seen
// while the authentication frame was written, and the number of "write…" records emitted before that write
// logFormatter: the formatter of the sessions run next (nil = logrus' default text formatter)
var logFormatter logrus.Formatter

func logSession(level int, password string, scenario int, extraSecret string) (log string, window int, writesBefore int, res string) {
	logMu.Lock()
	defer logMu.Unlock()
	if logFormatter != nil {
		oldF := rscp.Log.Formatter
		rscp.Log.SetFormatter(logFormatter)
		defer rscp.Log.SetFormatter(oldF)
	}
	var buf bytes.Buffer
	old := rscp.Log.Out
	oldLevel := rscp.Log.GetLevel()
	rscp.Log.SetOutput(&buf)
	rscp.Log.SetLevel(logrus.Level(level))
	defer func() { rscp.Log.SetOutput(old); rscp.Log.SetLevel(oldLevel) }()
	key := "logkey"
	cl, err := rscp.NewClient(rscp.ClientConfig{Address: "a", Username: "loguser", Password: password, Key: key})
	if err != nil {
		return "", -1, -1, "newclient-error"
	}
	pc := newPeerCipher(key)
	sc := &scriptConn{}
	enc := func(pl []byte) []byte {
		o := make([]byte, len(pl))
		pc.enc.CryptBlocks(o, pl)
		return o
	}
	window = -1
	sc.onWrite = func(k int, b []byte) [][]byte {
		if k == 0 || (scenario == 1 && k == 1) {
			if window == -1 {
				window = int(rscp.Log.GetLevel())
				writesBefore = strings.Count(buf.String(), "msg=\"write ")
			} else if int(rscp.Log.GetLevel()) > window {
				window = int(rscp.Log.GetLevel()) // a retried authentication must be hidden as well
			}
		}
		switch {
		case scenario == 1 && k == 0: // refused, connection kept; the caller retries
			return [][]byte{enc(frameBytes(itemBytes(uint32(rscp.RSCP_AUTHENTICATION), 3, []byte{0}), true, 1, 2))}
		case scenario == 2 && k == 0: // the reply cannot be decoded
			g := make([]byte, 32)
			g[1] = 9
			return [][]byte{enc(g)}
		case scenario == 3 && k == 0: // silence
			return nil
		case scenario == 17 && k == 0: // refused, connection kept; then the connection dies: the write of the retried authentication fails
			sc.failWrite = true
			return [][]byte{enc(frameBytes(itemBytes(uint32(rscp.RSCP_AUTHENTICATION), 3, []byte{0}), true, 1, 2))}
		case scenario >= 5 && k == 0: // the device answers the authentication with an error code (busy, try again, …)
			code := uint32(scenario - 5)
			return [][]byte{enc(frameBytes(itemBytes(uint32(rscp.RSCP_AUTHENTICATION), 0xff, []byte{byte(code), byte(code >> 8), byte(code >> 16), byte(code >> 24)}), true, 1, 2))}
		case scenario == 4 && k == 0: // an echoing peer: the authentication request comes back as the "reply"
			echo := plainFrame([]rscp.Message{{Tag: rscp.RSCP_REQ_AUTHENTICATION, DataType: rscp.Container, Value: []rscp.Message{
				{Tag: rscp.RSCP_AUTHENTICATION_USER, DataType: rscp.CString, Value: "loguser"},
				{Tag: rscp.RSCP_AUTHENTICATION_PASSWORD, DataType: rscp.CString, Value: password}}}}, true, time.Unix(1, 2))
			return [][]byte{enc(echo)}
		}
		auths := 1
		if scenario == 1 {
			auths = 2
		}
		if k < auths {
			return [][]byte{enc(frameBytes(itemBytes(uint32(rscp.RSCP_AUTHENTICATION), 3, []byte{10}), true, 1, 2))}
		}
		return [][]byte{enc(frameBytes(itemBytes(uint32(rscp.INFO_SERIAL_NUMBER), 13, []byte("serial")), true, 1, 2))}
	}
	cl.VerifAttachConn(sc)
	req := []rscp.Message{{Tag: rscp.INFO_REQ_SERIAL_NUMBER, DataType: rscp.None},
		{Tag: rscp.BAT_REQ_DATA, DataType: rscp.Container, Value: []rscp.Message{{Tag: rscp.BAT_REQ_DATA, DataType: rscp.Container, Value: []rscp.Message{
			{Tag: rscp.RSCP_REQ_SET_ENCRYPTION_PASSPHRASE, DataType: rscp.CString, Value: extraSecret}}}}}}
	res = func() (s string) {
		defer func() {
			if r := recover(); r != nil {
				s = "panic"
			}
		}()
		for try := 0; try < 2; try++ {
			_, err := cl.SendMultiple(req)
			if err == nil {
				return "ok"
			}
			s = "err " + err.Error() // what a caller (the e3dc command) prints
			if scenario != 1 && scenario != 17 {
				break
			}
		}
		return s
	}()
	disconnectBounded(cl)
	return buf.String(), window, writesBefore, res
}

func init() {
	streams["log"] = func(g *gen, cw *caseWriter, n int, thorough bool) {
		// (a) rendering
		for i := 0; i < n; i++ {
			var secrets []string
			var ms []rscp.Message
			for k := 0; k <= g.pick(3); k++ {
				ms = append(ms, g.printable(3, &secrets))
			}
			got := renderRun(ms)
			prop := "pass"
			txt := fmt.Sprintf("%s", ms)
			for _, s := range secrets {
				if containsAnyForm(txt, s) {
					prop = "FAIL C11 the value of a secret tag is not masked in the rendered text"
				}
			}
			for _, alt := range []string{fmt.Sprintf("%v", ms), fmt.Sprintf("%+v", ms)} {
				for _, s := range secrets {
					if containsAnyForm(alt, s) {
						prop = "FAIL C11 the value of a secret tag is not masked under %v / %+v"
					}
				}
			}
			if len(ms) > 0 {
				one := fmt.Sprintf("%s|%v|%+v", ms[0], ms[0], &ms[0])
				for _, s := range secrets {
					if containsAnyForm(one, s) {
						prop = "FAIL C11 the value of a secret tag is not masked when one message is formatted"
					}
				}
			}
			cw.add("render "+msgsString(ms), got, "N log render", prop)
		}
		// (b) sessions at every level
		levels := []int{0, 1, 2, 3, 4, 5, 6, 7, 8, 42, 97, 98}
		if thorough {
			levels = nil
			for l := 0; l <= 98; l++ {
				levels = append(levels, l)
			}
		}
		// the same sessions with logrus' JSON formatter (fields and message are serialised by encoding/json, not by fmt)
		for _, lvl := range []int{4, 5, 6, 7, 98} {
			for _, scenario := range []int{0, 1, 2} {
				logFormatter = &logrus.JSONFormatter{}
				pw, passphrase := g.secret(), g.secret()
				log, _, _, res := logSession(lvl, pw, scenario, passphrase)
				logFormatter = nil
				prop := "pass"
				// JSON escapes quotes, backslashes and control characters: look for the JSON spelling as well
				jpw, _ := json.Marshal(pw)
				jph, _ := json.Marshal(passphrase)
				if how := containsSecret(log+"\n"+res, pw); how != "" || strings.Contains(log, string(jpw[1:len(jpw)-1])) {
					prop = fmt.Sprintf("FAIL C11 with the JSON formatter the password appears in the log at level %d (scenario %d) %s", lvl, scenario, how)
				} else if containsAnyForm(log, passphrase) || strings.Contains(log, string(jph[1:len(jph)-1])) {
					prop = fmt.Sprintf("FAIL C11 with the JSON formatter the passphrase of a nested secret-tagged message appears as text at level %d", lvl)
				}
				cw.add("skip", "skip", fmt.Sprintf("N log session json-formatter level=%d scenario=%d", lvl, scenario), prop)
			}
		}
		for _, lvl := range levels {
			for scenario := 0; scenario < 5+12+1; scenario++ {
				pw := g.secret()
				passphrase := g.secret()
				log, window, wb, res := logSession(lvl, pw, scenario, passphrase)
				prop := "pass"
				if how := containsSecret(log+"\n"+res, pw); how != "" {
					prop = fmt.Sprintf("FAIL C11 the password appears in the log %s at level %d (scenario %d)", how, lvl, scenario)
					if strings.Contains(how, "RECEIVED") && scenario == 4 {
						// the peer sent the password back: recorded finding F23 (known_findings.json)
						prop = fmt.Sprintf("FAIL C11 sig=password-reflected-by-peer a peer that echoes the authentication request gets the password into the trace dump of received bytes (level %d)", lvl)
					}
				} else if containsAnyForm(log, passphrase) {
					prop = fmt.Sprintf("FAIL C11 the passphrase of a nested secret-tagged message appears as text at level %d", lvl)
				} else if res == "panic" {
					prop = "FAIL C11 client panics"
				} else if window > lvl {
					prop = fmt.Sprintf("FAIL C11 the logger level is raised from %d to %d while the authentication request is written ;; FAIL C17 the shared logger level is raised during authentication", lvl, window)
				}
				cw.add(fmt.Sprintf("logwin %d", lvl), fmt.Sprintf("window=%d write-records-before-auth=%d", window, wb),
					fmt.Sprintf("N log session level=%d scenario=%d bytes=%d", lvl, scenario, len(log)), prop)
			}
		}
	}
}
