package main

import (
	"fmt"
	"math"
	"strconv"
	"time"

	"github.com/spali/go-rscp/rscp"
)

// parser of the canonical text form (the inverse of showMsgs), used by the replayers

type tokStream struct {
	t []string
	i int
}

func (s *tokStream) next() (string, bool) {
	if s.i >= len(s.t) {
		return "", false
	}
	s.i++
	return s.t[s.i-1], true
}

func parseVal(s *tokStream) (interface{}, error) {
	t, ok := s.next()
	if !ok {
		return nil, fmt.Errorf("eof")
	}
	switch t {
	case "nil":
		return nil, nil
	case "true":
		return true, nil
	case "false":
		return false, nil
	case "n":
		k, _ := s.next()
		ns, _ := s.next()
		switch k {
		case "i8", "i16", "i32", "i64":
			n, err := strconv.ParseInt(ns, 10, 64)
			if err != nil {
				return nil, err
			}
			switch k {
			case "i8":
				return int8(n), nil
			case "i16":
				return int16(n), nil
			case "i32":
				return int32(n), nil
			}
			return n, nil
		default:
			n, err := strconv.ParseUint(ns, 10, 64)
			if err != nil {
				return nil, err
			}
			switch k {
			case "u8":
				return uint8(n), nil
			case "u16":
				return uint16(n), nil
			case "u32":
				return uint32(n), nil
			case "u64":
				return n, nil
			case "f32":
				return math.Float32frombits(uint32(n)), nil
			case "f64":
				return math.Float64frombits(n), nil
			case "rerr":
				return rscp.RscpError(n), nil
			}
			return nil, fmt.Errorf("kind %s", k)
		}
	case "s":
		h, _ := s.next()
		b, err := unhex(h)
		return string(b), err
	case "b":
		h, _ := s.next()
		b, err := unhex(h)
		if b == nil {
			b = []byte{}
		}
		return b, err
	case "t":
		a, _ := s.next()
		b, _ := s.next()
		sec, _ := strconv.ParseInt(a, 10, 64)
		ns, _ := strconv.ParseInt(b, 10, 64)
		return time.Unix(sec, ns).UTC(), nil
	case "c":
		return parseMsgs(s)
	case "o":
		s.next()
		return otherVal(99), nil
	}
	return nil, fmt.Errorf("token %q", t)
}

func parseMsgs(s *tokStream) ([]rscp.Message, error) {
	if t, _ := s.next(); t != "[" {
		return nil, fmt.Errorf("expected [")
	}
	ms := []rscp.Message{}
	for {
		t, ok := s.next()
		if !ok {
			return nil, fmt.Errorf("eof")
		}
		if t == "]" {
			return ms, nil
		}
		if t != "M" {
			return nil, fmt.Errorf("expected M")
		}
		a, _ := s.next()
		b, _ := s.next()
		tag, _ := strconv.ParseUint(a, 10, 32)
		dt, _ := strconv.ParseUint(b, 10, 8)
		v, err := parseVal(s)
		if err != nil {
			return nil, err
		}
		if ov, isOther := v.(otherVal); isOther {
			_ = ov
			v = struct{ Other int }{99}
		}
		ms = append(ms, rscp.Message{Tag: rscp.Tag(tag), DataType: rscp.DataType(dt), Value: v})
	}
}
