package main

import (
	"encoding/hex"
	"errors"
	"fmt"
	"io"
	"math"
	"strings"
	"time"

	"github.com/spali/go-rscp/rscp"
)

// canonical text form shared with the Lean driver (lean/Rscp/Wire.lean)

func hexOf(b []byte) string {
	if len(b) == 0 {
		return "-"
	}
	return hex.EncodeToString(b)
}

func showVal(sb *strings.Builder, v interface{}) {
	switch x := v.(type) {
	case nil:
		sb.WriteString("nil")
	case bool:
		if x {
			sb.WriteString("true")
		} else {
			sb.WriteString("false")
		}
	case int8:
		fmt.Fprintf(sb, "n i8 %d", x)
	case uint8:
		fmt.Fprintf(sb, "n u8 %d", x)
	case int16:
		fmt.Fprintf(sb, "n i16 %d", x)
	case uint16:
		fmt.Fprintf(sb, "n u16 %d", x)
	case int32:
		fmt.Fprintf(sb, "n i32 %d", x)
	case uint32:
		fmt.Fprintf(sb, "n u32 %d", x)
	case int64:
		fmt.Fprintf(sb, "n i64 %d", x)
	case uint64:
		fmt.Fprintf(sb, "n u64 %d", x)
	case float32:
		fmt.Fprintf(sb, "n f32 %d", math.Float32bits(x))
	case float64:
		fmt.Fprintf(sb, "n f64 %d", math.Float64bits(x))
	case rscp.RscpError:
		fmt.Fprintf(sb, "n rerr %d", uint32(x))
	case string:
		sb.WriteString("s " + hexOf([]byte(x)))
	case []byte:
		sb.WriteString("b " + hexOf(x))
	case time.Time:
		fmt.Fprintf(sb, "t %d %d", x.Unix(), x.Nanosecond())
	case []rscp.Message:
		sb.WriteString("c ")
		showMsgs(sb, x)
	case otherVal:
		fmt.Fprintf(sb, "o %d", int(x))
	default:
		fmt.Fprintf(sb, "o 99")
	}
}

// otherVal stands for "a Go value of a type the tables do not know"
type otherVal int

func showMsgs(sb *strings.Builder, ms []rscp.Message) {
	sb.WriteString("[")
	for _, m := range ms {
		fmt.Fprintf(sb, " M %d %d ", uint32(m.Tag), uint8(m.DataType))
		showVal(sb, m.Value)
	}
	sb.WriteString(" ]")
}

func msgsString(ms []rscp.Message) string {
	var sb strings.Builder
	showMsgs(&sb, ms)
	return sb.String()
}

func errClass(err error) string {
	switch {
	case errors.Is(err, rscp.ErrRscpInvalidMagic):
		return "invalidMagic"
	case errors.Is(err, rscp.ErrRscpInvalidControl):
		return "invalidControl"
	case errors.Is(err, rscp.ErrRscpProtVersionMismatch):
		return "versionMismatch"
	case errors.Is(err, rscp.ErrRscpInvalidFrameLength):
		return "invalidFrameLength"
	case errors.Is(err, rscp.ErrRscpInvalidCrc):
		return "invalidCrc"
	case errors.Is(err, rscp.ErrRscpDataLimitExceeded):
		return "dataLimit"
	case errors.Is(err, rscp.VerifErrInvalidDataType):
		return "invalidDataType"
	case errors.Is(err, io.EOF), errors.Is(err, io.ErrUnexpectedEOF):
		return "eof"
	case errors.Is(err, rscp.ErrDataTypeValueMismatch):
		return "typeMismatch"
	case errors.Is(err, rscp.ErrNotARequestTag):
		return "notARequest"
	case errors.Is(err, rscp.ErrNotAResponseTag):
		return "notAResponse"
	case errors.Is(err, rscp.ErrValidTag):
		return "validTag"
	case errors.Is(err, rscp.ErrMissingValue):
		return "missingValue"
	case errors.Is(err, rscp.ErrNoArguments):
		return "noArguments"
	case errors.Is(err, rscp.ErrJSONUnmarshal):
		return "jsonUnmarshal"
	}
	return "other"
}

func resMsgs(ms []rscp.Message, err error) string {
	if err != nil {
		return "err " + errClass(err)
	}
	return "ok " + msgsString(ms)
}

func unhex(s string) ([]byte, error) {
	if s == "-" {
		return nil, nil
	}
	return hex.DecodeString(s)
}
