package main

import (
	"encoding/json"
	"fmt"
	"net"
	"os"
	"path/filepath"
	"strings"
	"time"

	"github.com/spali/go-rscp/rscp"
)

// stream vocab (C14): the vocabulary functions on all known tags, all 256 data-type codes, unknown numbers

func goKind(v interface{}) string {
	switch v.(type) {
	case nil:
		return "nil"
	case *bool, bool:
		return "bool"
	case *int8, int8:
		return "i8"
	case *uint8, uint8:
		return "u8"
	case *int16, int16:
		return "i16"
	case *uint16, uint16:
		return "u16"
	case *int32, int32:
		return "i32"
	case *uint32, uint32:
		return "u32"
	case *int64, int64:
		return "i64"
	case *uint64, uint64:
		return "u64"
	case *float32, float32:
		return "f32"
	case *float64, float64:
		return "f64"
	case *string, string:
		return "str"
	case []byte:
		return "bytes"
	case *time.Time, time.Time:
		return "time"
	case *rscp.RscpError, rscp.RscpError:
		return "rerr"
	case *[]rscp.Message, []rscp.Message:
		return "msgs"
	}
	return "other"
}

var kindProbe = map[string]interface{}{"nil": nil, "bool": true, "i8": int8(1), "u8": uint8(1), "i16": int16(1), "u16": uint16(1), "i32": int32(1),
	"u32": uint32(1), "i64": int64(1), "u64": uint64(1), "f32": float32(1), "f64": float64(1), "str": "s", "bytes": []byte{1},
	"time": time.Unix(1, 0), "rerr": rscp.RscpError(1), "msgs": []rscp.Message{}, "other": 5}

func tagLine(t rscp.Tag) string {
	name := "-"
	if t.IsATag() {
		name = hexOf([]byte(t.String()))
	}
	js, _ := json.Marshal(t)
	var back rscp.Tag
	rt := "err"
	if err := json.Unmarshal(js, &back); err == nil {
		rt = fmt.Sprint(uint32(back))
	}
	b := func(x bool) int {
		if x {
			return 1
		}
		return 0
	}
	return fmt.Sprintf("known=%d name=%s dt=%d req=%d resp=%d json=%s back=%s", b(t.IsATag()), name, uint8(t.DataType()), b(rscp.VerifIsRequest(t)),
		b(rscp.VerifIsResponse(t)), hexOf(js), rt)
}

func tagCase(cw *caseWriter, t rscp.Tag, label string) {
	got := tagLine(t)
	prop := "pass"
	if !strings.HasSuffix(got, fmt.Sprintf(" back=%d", uint32(t))) {
		prop = "FAIL C14 tag written to JSON does not read back as itself: " + got
	}
	// ... also where encoding/json writes it as the key of a map
	if js, err := json.Marshal(map[rscp.Tag]int{t: 1}); err != nil {
		prop = "FAIL C14 tag as the key of a map cannot be written to JSON: " + err.Error()
	} else {
		back := map[rscp.Tag]int{}
		if err := json.Unmarshal(js, &back); err != nil || len(back) != 1 || back[t] != 1 {
			prop = "FAIL C14 tag written to JSON as the key of a map does not read back as itself: " + string(js)
		}
	}
	if t.IsATag() {
		if back, err := rscp.TagString(t.String()); err != nil || back != t {
			prop = "FAIL C14 tag name does not parse back to the same number"
		}
	}
	if rscp.VerifIsRequest(t) != (uint32(t)&(1<<23) == 0) || rscp.VerifIsResponse(t) == rscp.VerifIsRequest(t) {
		prop = "FAIL C14 request/response classification is not bit 23"
	}
	if !t.DataType().IsADataType() {
		prop = "FAIL C14 declared data type is not a defined data type"
	}
	cw.add(fmt.Sprintf("tag %d", uint32(t)), got, nt(true)+" vocab "+label, prop)
}

func tagStrCase(cw *caseWriter, s string, label string) {
	r1 := "none"
	if t, err := rscp.TagString(s); err == nil {
		r1 = fmt.Sprintf("some %d", uint32(t))
	}
	js, _ := json.Marshal(s)
	var t rscp.Tag
	r2 := "none"
	if err := json.Unmarshal(js, &t); err == nil {
		r2 = fmt.Sprintf("some %d", uint32(t))
	}
	cw.add("tagstr "+hexOf([]byte(s)), "string="+r1+" json="+r2, "N vocab "+label, "")
}

func dtLine(d rscp.DataType) string {
	b := func(x bool) int {
		if x {
			return 1
		}
		return 0
	}
	name := "-"
	if d.IsADataType() {
		name = hexOf([]byte(d.String()))
	}
	empty := func() (s string) {
		defer func() {
			if r := recover(); r != nil {
				s = "panic"
			}
		}()
		return goKind(rscp.VerifNewEmpty(d, 0))
	}()
	// which kinds the validator accepts
	var acc []string
	for _, k := range []string{"nil", "bool", "i8", "u8", "i16", "u16", "i32", "u32", "i64", "u64", "f32", "f64", "str", "bytes", "time", "rerr", "msgs", "other"} {
		ok := func() (r bool) {
			defer func() {
				if x := recover(); x != nil {
					r = false
				}
			}()
			return rscp.VerifIsValidValue(d, kindProbe[k])
		}()
		if ok {
			acc = append(acc, k)
		}
	}
	// what the value constructor returns for a representative input
	built := func() (s string) {
		defer func() {
			if r := recover(); r != nil {
				s = "panic"
			}
		}()
		var in interface{} = float64(1)
		switch d {
		case rscp.Container:
			in = []rscp.Message{}
		case rscp.Error:
			in = rscp.RscpError(1)
		case rscp.Timestamp:
			in = time.Unix(1, 0)
		case rscp.ByteArray, rscp.CString:
			in = "x"
		}
		v, err := rscp.VerifNew(d, in)
		if err != nil {
			return "err"
		}
		return goKind(v)
	}()
	js, _ := json.Marshal(d)
	var back rscp.DataType
	rt := "err"
	if err := json.Unmarshal(js, &back); err == nil {
		rt = fmt.Sprint(uint8(back))
	}
	return fmt.Sprintf("defined=%d name=%s len=%d empty=%s valid=%s new=%s back=%s", b(d.IsADataType()), name, rscp.VerifLength(d), empty,
		strings.Join(acc, ","), built, rt)
}

func init() {
	streams["vocab"] = func(g *gen, cw *caseWriter, n int, thorough bool) {
		// the vocabulary is inspected after a history of calls with ordinary and odd inputs
		stressAPI(g)
		cw.add("codes", "codes-ok", "T vocab name-codes", "")
		// the published vocabulary (frozen snapshot of the pinned commit) must still be there, unchanged
		if data, err := os.ReadFile(filepath.Join(os.Getenv("VERIF_ROOT"), "lean", "Rscp", "Snapshot", "Vocab.tsv")); err == nil {
			for _, line := range strings.Split(strings.TrimSpace(string(data)), "\n") {
				f := strings.Split(line, "\t")
				if len(f) != 3 {
					continue
				}
				var num, dt uint64
				fmt.Sscan(f[0], &num)
				fmt.Sscan(f[2], &dt)
				t, err := rscp.TagString(f[1])
				switch {
				case err != nil:
					cw.add(fmt.Sprintf("tag %d", num), tagLine(rscp.Tag(num)), "N vocab snapshot", "FAIL C14 published tag name "+f[1]+" is gone")
				case uint64(t) != num:
					cw.add(fmt.Sprintf("tag %d", num), tagLine(rscp.Tag(num)), "N vocab snapshot", fmt.Sprintf("FAIL C14 published tag %s changed its number from %d to %d", f[1], num, uint32(t)))
				case uint64(t.DataType()) != dt:
					cw.add(fmt.Sprintf("tag %d", num), tagLine(rscp.Tag(num)), "N vocab snapshot", fmt.Sprintf("FAIL C14 published tag %s changed its declared data type from %d to %d", f[1], dt, uint8(t.DataType())))
				}
			}
		}
		for _, t := range rscp.TagValues() {
			tagCase(cw, t, "known-tag")
		}
		for i := 0; i < 64; i++ {
			for _, t := range []rscp.Tag{rscp.Tag(1) << uint(i%32), rscp.Tag(1)<<uint(i%32) - 1} {
				tagCase(cw, t, "boundary-tag")
			}
		}
		for i := 0; i < n; i++ {
			tagCase(cw, rscp.Tag(g.r.Uint32()), "random-tag")
		}
		// neighbours of known tags in the number space (other direction bit, ±1, next group): unknown ones have no
		// name, no declared type and are written as numbers
		for i, t := range rscp.TagValues() {
			if i%7 != 0 && !thorough {
				continue
			}
			for _, u := range []rscp.Tag{t ^ (1 << 23), t + 1, t - 1, t ^ 0x00010000} {
				if !u.IsATag() {
					tagCase(cw, u, "neighbour-of-known-tag")
				}
			}
		}
		for _, t := range rscp.TagValues() {
			if g.pick(6) == 0 || thorough {
				tagStrCase(cw, t.String(), "known-name")
			}
		}
		for _, s := range []string{"", "0", "1", "007", "4294967295", "4294967296", "-1", "+1", "1.5", "1e3", " 1", "1 ", "0x10", "1_000", "RSCP_REQ_AUTHENTICATIO",
			"rscp_req_authentication", "RSCP_REQ_AUTHENTICATION ", "Tag(5)", "2147483648", "99999999999999999999", "٣"} {
			tagStrCase(cw, s, "odd-string")
		}
		for i := 0; i < 200; i++ {
			tagStrCase(cw, fmt.Sprint(g.r.Uint32()), "decimal-string")
		}
		for d := 0; d < 256; d++ {
			got := dtLine(rscp.DataType(d))
			prop := "pass"
			if rscp.DataType(d).IsADataType() && !strings.HasSuffix(got, fmt.Sprintf(" back=%d", d)) {
				prop = "FAIL C14 data type written to JSON does not read back as itself"
			}
			if rscp.DataType(d).IsADataType() {
				if why := coherent(rscp.DataType(d)); why != "" {
					prop = "FAIL C14 data type " + rscp.DataType(d).String() + ": " + why
				}
			}
			cw.add(fmt.Sprintf("dt %d", d), got, "N vocab data-type", prop)
		}
	}
}

// coherentInputs: what the value constructor is fed for a data type — the smallest, an ordinary and the largest value
func coherentInputs(d rscp.DataType) []interface{} {
	switch d {
	case rscp.None:
		return []interface{}{nil}
	case rscp.Container:
		return []interface{}{[]rscp.Message{}, []rscp.Message{{Tag: 1, DataType: rscp.None}},
			[]rscp.Message{{Tag: 2, DataType: rscp.CString, Value: ""}}, []rscp.Message{{Tag: 3, DataType: rscp.Container, Value: []rscp.Message{}}}}
	case rscp.Error:
		return []interface{}{rscp.RscpError(0), rscp.RscpError(7), rscp.RscpError(4294967295)}
	case rscp.Timestamp:
		return []interface{}{time.Unix(0, 0).UTC(), time.Unix(5, 6).UTC(), time.Unix(-1, 999999999).UTC(), time.Unix(1<<40, 0).UTC(),
			time.Unix(-62167219200, 0).UTC(), time.Unix(-62167219201, 999999999).UTC(), time.Unix(-62135596800, 0).UTC(), time.Unix(253402300800, 0).UTC(),
			time.Unix(-1<<62, 0).UTC(), time.Unix(1<<62, 5).UTC()}
	case rscp.ByteArray:
		return []interface{}{"", "x", "xyz", strings.Repeat("\x00", 33), []byte{}, []byte{1, 2, 3}, []byte("abc"), json.RawMessage("ab"), net.IP{10, 0, 0, 1},
			namedBytes{7, 8}, []rscp.DataType{rscp.Bool, rscp.Char8}}
	case rscp.CString:
		return []interface{}{"", "x", "xyz", strings.Repeat("a", 32), "\x00", "K\xfcche", "\xff", "\xe2\x82", "gr\xc3\xbc\xc3\x9f"}
	case rscp.Bool:
		return []interface{}{float64(0), float64(1)}
	case rscp.Char8:
		return []interface{}{float64(0), float64(1), float64(-128), float64(127)}
	case rscp.UChar8, rscp.Bitfield:
		return []interface{}{float64(0), float64(1), float64(255)}
	case rscp.Int16:
		return []interface{}{float64(0), float64(-32768), float64(32767)}
	case rscp.UInt16:
		return []interface{}{float64(0), float64(65535)}
	case rscp.Int32:
		return []interface{}{float64(0), float64(-2147483648), float64(2147483647)}
	case rscp.Uint32:
		return []interface{}{float64(0), float64(4294967295)}
	}
	return []interface{}{float64(0), float64(1), float64(1 << 40)}
}

// coherent: a value built for a data type is accepted by the validator, encoded in the declared number of bytes
// and decoded to an equal value (Go-side oracle of C14, independent of the Lean model) — for the smallest, an
// ordinary and the largest value of the type, alone in a frame, last in a frame behind other items, and last in
// a container, with and without checksum
func coherent(d rscp.DataType) (why string) {
	defer func() {
		if r := recover(); r != nil {
			why = fmt.Sprintf("panic: %v", r)
		}
	}()
	for inIdx, in := range coherentInputs(d) {
		v, err := rscp.VerifNew(d, in)
		if err != nil {
			if _, isStr := in.(string); !isStr && d == rscp.ByteArray {
				continue // the constructor may refuse inputs other than text; if it accepts them the result has to be coherent
			}
			return fmt.Sprintf("constructor fails for %v: %v", in, err)
		}
		if !rscp.VerifIsValidValue(d, v) {
			return fmt.Sprintf("constructor given %T returns %T which the validator rejects", in, v)
		}
		if src, ok := in.([]byte); ok && len(src) > 0 {
			if out, ok := v.([]byte); ok && len(out) > 0 {
				before := string(out)
				src[0] ^= 0xff
				if string(out) != before {
					return "the built value shares the caller's buffer"
				}
				src[0] ^= 0xff
			}
		}
		m := rscp.Message{Tag: 0x00800001, DataType: d, Value: v}
		if err := rscp.VerifValidate(m); err != nil {
			return fmt.Sprintf("validate rejects the value built from %v: %v", in, err)
		}
		if goKind(rscp.VerifNewEmpty(d, 3)) != goKind(v) {
			return fmt.Sprintf("decoder allocates %s, constructor returns %s", goKind(rscp.VerifNewEmpty(d, 3)), goKind(v))
		}
		// a message written to JSON by the package itself keeps its data type when read back (where it reads back at all)
		if inIdx == 0 {
			for _, tg := range []rscp.Tag{0x00800001, rscp.EMS_POWER_PV, rscp.INFO_SERIAL_NUMBER, rscp.BAT_DATA, rscp.BAT_REQ_DATA, 0x7f812345} {
				mj := rscp.Message{Tag: tg, DataType: d, Value: v}
				js, err := json.Marshal(mj)
				if err != nil {
					continue
				}
				var back rscp.Message
				if err := json.Unmarshal(js, &back); err != nil {
					continue
				}
				if back.DataType != d || back.Tag != tg {
					return fmt.Sprintf("the message %s written to JSON as %s reads back with tag %d and data type %s", msgsString([]rscp.Message{mj}), trunc(string(js), 100), uint32(back.Tag), back.DataType)
				}
			}
		}
		// a message object that names its data type explicitly is read with that data type — under a tag without a
		// declared type, under an unknown tag and under tags that declare another type
		if inIdx == 0 {
			val := map[rscp.DataType]string{rscp.None: "", rscp.Bool: "true", rscp.CString: `"x"`, rscp.ByteArray: "[1,2]", rscp.Timestamp: `"2024-01-02T03:04:05Z"`,
				rscp.Container: "[]", rscp.Error: "7", rscp.Float32: "1.5", rscp.Double64: "1.5"}
			lit, ok := val[d]
			if !ok {
				lit = "1"
			}
			for _, tg := range []string{"8388609", `"2139169605"`, `"EMS_POWER_PV"`, `"INFO_SERIAL_NUMBER"`, `"BAT_DATA"`, `"RSCP_GENERAL_ERROR"`} {
				js := `{"Tag":` + tg + `,"DataType":"` + d.String() + `"`
				if lit != "" {
					js += `,"Value":` + lit
				}
				js += "}"
				var back rscp.Message
				if err := json.Unmarshal([]byte(js), &back); err != nil {
					continue // refusing is fine; reading it as something else is not
				}
				if back.DataType != d {
					return fmt.Sprintf("the message object %s is read with data type %s", js, back.DataType)
				}
			}
		}
		first := rscp.Message{Tag: 0x00800002, DataType: rscp.UChar8, Value: uint8(9)}
		for _, ms := range [][]rscp.Message{{m}, {first, m}, {{Tag: 0x00800003, DataType: rscp.Container, Value: []rscp.Message{first, m}}}} {
			for _, crc := range []bool{false, true} {
				plain := plainFrame(ms, crc, time.Unix(1, 0).UTC())
				if plain == nil {
					return fmt.Sprintf("encoder fails for the value built from %v", in)
				}
				if len(ms) == 1 && ms[0].DataType == d {
					l := int(plain[16]) | int(plain[17])<<8
					if n := int(rscp.VerifLength(d)); n != 0 && l != 7+n {
						return fmt.Sprintf("encoded in %d bytes, declared length %d", l-7, n)
					}
				}
				if got := readOnce(identityMode{}, plain); got != "ok "+msgsString(ms) {
					return fmt.Sprintf("the value built from %#v (items in frame %d, checksum %v) decodes to %s", in, len(ms), crc, trunc(got, 80))
				}
			}
		}
	}
	return ""
}

// stressAPI drives the exported and the internal entry points of the package with ordinary and odd inputs before
// the vocabulary is inspected: the vocabulary has to be the same after any history of calls
func stressAPI(g *gen) {
	try := func(f func()) {
		defer func() { _ = recover() }()
		f()
	}
	vals := []interface{}{nil, true, int8(1), uint8(1), int16(1), uint16(1), int32(1), uint32(1), int64(1), uint64(1), float32(1), float64(1),
		"s", []byte{1}, time.Unix(1, 0), rscp.RscpError(1), []rscp.Message{}, 5, struct{}{}}
	for d := 0; d < 256; d++ {
		for _, v := range vals {
			for _, t := range []rscp.Tag{rscp.RSCP_REQ_AUTHENTICATION, rscp.RSCP_AUTHENTICATION, 0x00800001, 0x7fffffff} {
				m := rscp.Message{Tag: t, DataType: rscp.DataType(d), Value: v}
				try(func() { _ = rscp.VerifValidateRequests([]rscp.Message{m}) })
				try(func() { _ = rscp.VerifValidate(m) })
				try(func() { _ = m.String() })
			}
		}
		try(func() { _, _ = rscp.VerifNew(rscp.DataType(d), float64(1)) })
		try(func() { _, _ = rscp.VerifNew(rscp.DataType(d), "x") })
		try(func() { _ = rscp.VerifNewEmpty(rscp.DataType(d), 2) })
		try(func() { _ = rscp.DataType(d).String() })
		try(func() { _, _ = json.Marshal(rscp.Message{Tag: 1, DataType: rscp.DataType(d), Value: uint8(1)}) })
		// a frame with one item of this type code and a few bytes of payload
		for _, l := range []int{0, 1, 4, 8} {
			p := frameBytes(itemBytes(0x00800001, byte(d), make([]byte, l)), true, 1, 0)
			try(func() { _ = readOnce(identityMode{}, p) })
		}
	}
	for i := 0; i < 200; i++ {
		ms := g.tree()
		try(func() { _ = rscp.VerifValidateRequests(ms) })
		try(func() { _ = readOnce(identityMode{}, plainFrame(ms, i%2 == 0, time.Unix(1, 0))) })
		try(func() { _, _ = json.Marshal(ms) })
		try(func() { var back []rscp.Message; b, _ := json.Marshal(ms); _ = json.Unmarshal(b, &back) })
		try(func() { _, _ = rscp.CreateRequest(g.argAlphabet()[:1+g.pick(6)]...) })
	}
	for _, s := range []string{"", "x", "None", "Error", "Container", "DataType(19)", "RSCP_REQ_AUTHENTICATION", "0", "4294967296"} {
		try(func() { _, _ = rscp.TagString(s) })
		try(func() { _, _ = rscp.DataTypeString(s) })
		try(func() { var t rscp.Tag; _ = json.Unmarshal([]byte(`"`+s+`"`), &t) })
		try(func() { var d rscp.DataType; _ = json.Unmarshal([]byte(`"`+s+`"`), &d) })
	}
	try(func() { _ = rscp.DataTypeValues(); _ = rscp.TagValues() })
}
