package main

import (
	"crypto/cipher"
	"encoding/binary"
	"fmt"
	"hash/crc32"
	"io"
	"math"
	"net"
	"strings"
	"sync"
	"time"

	"github.com/azihsoyn/rijndael256"
)

// An independent RSCP peer: its own key padding, IV, CBC chaining, frame parser, TLV decoder and
// frame writer — nothing here calls into package rscp (except for nothing at all), so it is the
// "independent peer that implements just that scheme" of C06, and the recorder of what reached
// the wire for C05/C08/C09.

type peerCipher struct{ enc, dec cipher.BlockMode }

func newPeerCipher(key string) *peerCipher {
	k := make([]byte, 32)
	for i := range k {
		k[i] = 0xff
	}
	copy(k, key) // a longer key is used by its first 32 bytes
	iv := make([]byte, 32)
	for i := range iv {
		iv[i] = 0xff
	}
	cb, _ := rijndael256.NewCipher(k)
	return &peerCipher{cipher.NewCBCEncrypter(cb, iv), cipher.NewCBCDecrypter(cb, iv)}
}

// peerDecodeItems is an independent TLV decoder producing the canonical text form; ok=false if malformed
func peerDecodeItems(b []byte, sb *strings.Builder) bool {
	sb.WriteString("[")
	for len(b) > 0 {
		if len(b) < 7 {
			return false
		}
		tag := binary.LittleEndian.Uint32(b)
		dt := b[4]
		l := int(binary.LittleEndian.Uint16(b[5:]))
		b = b[7:]
		if len(b) < l {
			return false
		}
		v := b[:l]
		b = b[l:]
		fmt.Fprintf(sb, " M %d %d ", tag, dt)
		fixed := map[byte]int{0: 0, 1: 1, 2: 1, 3: 1, 4: 2, 5: 2, 6: 4, 7: 4, 8: 8, 9: 8, 10: 4, 11: 8, 12: 1, 15: 12, 255: 4}
		if n, ok := fixed[dt]; ok && n != l {
			return false
		}
		switch dt {
		case 0:
			sb.WriteString("nil")
		case 1:
			if v[0] != 0 {
				sb.WriteString("true")
			} else {
				sb.WriteString("false")
			}
		case 2:
			fmt.Fprintf(sb, "n i8 %d", int8(v[0]))
		case 3, 12:
			fmt.Fprintf(sb, "n u8 %d", v[0])
		case 4:
			fmt.Fprintf(sb, "n i16 %d", int16(binary.LittleEndian.Uint16(v)))
		case 5:
			fmt.Fprintf(sb, "n u16 %d", binary.LittleEndian.Uint16(v))
		case 6:
			fmt.Fprintf(sb, "n i32 %d", int32(binary.LittleEndian.Uint32(v)))
		case 7:
			fmt.Fprintf(sb, "n u32 %d", binary.LittleEndian.Uint32(v))
		case 8:
			fmt.Fprintf(sb, "n i64 %d", int64(binary.LittleEndian.Uint64(v)))
		case 9:
			fmt.Fprintf(sb, "n u64 %d", binary.LittleEndian.Uint64(v))
		case 10:
			fmt.Fprintf(sb, "n f32 %d", binary.LittleEndian.Uint32(v))
		case 11:
			fmt.Fprintf(sb, "n f64 %d", binary.LittleEndian.Uint64(v))
		case 13:
			sb.WriteString("s " + hexOf(v))
		case 16:
			sb.WriteString("b " + hexOf(v))
		case 14:
			sb.WriteString("c ")
			if !peerDecodeItems(v, sb) {
				return false
			}
		case 15:
			sec := int64(binary.LittleEndian.Uint64(v))
			ns := int64(int32(binary.LittleEndian.Uint32(v[8:])))
			// canonical form, seconds in wrapping int64
			q := ns / 1000000000
			r := ns % 1000000000
			if r < 0 {
				r += 1000000000
				q--
			}
			fmt.Fprintf(sb, "t %d %d", sec+q, r)
		case 255:
			fmt.Fprintf(sb, "n rerr %d", binary.LittleEndian.Uint32(v))
		default:
			return false
		}
	}
	sb.WriteString(" ]")
	return true
}

// peerParseFrame checks a plaintext frame completely (header, lengths, CRC, zero padding) and returns the
// canonical text of its items, the time stamp, and whether it carries a CRC
func peerParseFrame(p []byte) (items string, sec int64, nsec int32, crc bool, err string) {
	if len(p) < 18 || p[0] != 0xe3 || p[1] != 0xdc {
		return "", 0, 0, false, "bad-magic"
	}
	ctrl := binary.LittleEndian.Uint16(p[2:])
	if ctrl&^0x1000 != 0x0100 {
		return "", 0, 0, false, "bad-control"
	}
	crc = ctrl&0x1000 != 0
	sec = int64(binary.LittleEndian.Uint64(p[4:]))
	nsec = int32(binary.LittleEndian.Uint32(p[12:]))
	l := int(binary.LittleEndian.Uint16(p[16:]))
	fs := 18 + l
	if crc {
		fs += 4
	}
	if len(p) < fs {
		return "", 0, 0, crc, "short"
	}
	for _, b := range p[fs:] {
		if b != 0 {
			return "", 0, 0, crc, "dirty-padding"
		}
	}
	if crc && binary.LittleEndian.Uint32(p[18+l:]) != crc32.ChecksumIEEE(p[:18+l]) {
		return "", 0, 0, crc, "bad-crc"
	}
	var sb strings.Builder
	if !peerDecodeItems(p[18:18+l], &sb) {
		return "", 0, 0, crc, "bad-items"
	}
	return sb.String(), sec, nsec, crc, ""
}

// frameBytes builds a plaintext frame around already encoded items
func frameBytes(items []byte, crc bool, sec int64, nsec int32) []byte {
	p := []byte{0xe3, 0xdc, 0x00, 0x01}
	if crc {
		p[3] = 0x11
	}
	p = binary.LittleEndian.AppendUint64(p, uint64(sec))
	p = binary.LittleEndian.AppendUint32(p, uint32(nsec))
	p = binary.LittleEndian.AppendUint16(p, uint16(len(items)))
	p = append(p, items...)
	if crc {
		p = binary.LittleEndian.AppendUint32(p, crc32.ChecksumIEEE(p))
	}
	return padBlocks(p)
}

func itemBytes(tag uint32, dt byte, val []byte) []byte {
	b := binary.LittleEndian.AppendUint32(nil, tag)
	b = append(b, dt)
	b = binary.LittleEndian.AppendUint16(b, uint16(len(val)))
	return append(b, val...)
}

// ---- a scripted peer on one connection ------------------------------------------------------

type peerFrame struct {
	conn  int
	text  string // canonical items, or "undecodable:<why>"
	sec   int64
	nsec  int32
	crc   bool
	plain []byte
	ciph  []byte
}

type behaviour struct {
	once  *int   // badCrcOnce: how often the behaviour has acted
	kind  string // ok | silent | closeBefore | closeInside | garbled | badCrc | malformed | empty | trailing | raw
	k     int
	items []byte   // encoded reply items for ok-like kinds
	segs  [][]byte // for kind raw: plaintext pieces are not used; cut positions into the ciphertext in k… (see segments)
	cuts  []int
	delay time.Duration
	after chan struct{}
}

type peer struct {
	mu      sync.Mutex
	key     string
	frames  []peerFrame
	decide  func(conn int, f peerFrame) behaviour // called with mu held
	closedC map[int]bool
	wg      sync.WaitGroup
}

func newPeer(key string) *peer { return &peer{key: key, closedC: map[int]bool{}} }

// serve handles one connection until it ends
func (p *peer) serve(connNo int, c net.Conn) {
	defer p.wg.Done()
	defer c.Close()
	pc := newPeerCipher(p.key)
	var plain, ciph []byte
	for {
		blk := make([]byte, 32)
		if _, err := io.ReadFull(c, blk); err != nil {
			p.mu.Lock()
			p.closedC[connNo] = true
			p.mu.Unlock()
			return
		}
		ciph = append(ciph, blk...)
		d := make([]byte, 32)
		pc.dec.CryptBlocks(d, blk)
		plain = append(plain, d...)
		// frame complete?
		need := 32
		if len(plain) >= 18 && plain[0] == 0xe3 && plain[1] == 0xdc {
			need = 18 + int(binary.LittleEndian.Uint16(plain[16:]))
			if binary.LittleEndian.Uint16(plain[2:])&0x1000 != 0 {
				need += 4
			}
		}
		if len(plain) < need {
			continue
		}
		text, sec, nsec, crc, perr := peerParseFrame(plain)
		if perr != "" {
			text = "undecodable:" + perr
		}
		f := peerFrame{conn: connNo, text: text, sec: sec, nsec: nsec, crc: crc, plain: plain, ciph: ciph}
		plain, ciph = nil, nil
		p.mu.Lock()
		p.frames = append(p.frames, f)
		b := p.decide(connNo, f)
		p.mu.Unlock()
		if perr != "" {
			return // an independent peer cannot make sense of this connection any more
		}
		if !p.act(c, pc, b) {
			return
		}
	}
}

func (p *peer) act(c net.Conn, pc *peerCipher, b behaviour) bool {
	now := time.Now()
	enc := func(pl []byte) []byte {
		out := make([]byte, len(pl))
		pc.enc.CryptBlocks(out, pl)
		return out
	}
	if b.delay > 0 {
		time.Sleep(b.delay)
	}
	switch b.kind {
	case "ok":
		ct := enc(frameBytes(b.items, true, now.Unix(), int32(now.Nanosecond())))
		if len(b.cuts) == 0 {
			c.Write(ct)
		} else {
			prev := 0
			for _, cut := range append(append([]int{}, b.cuts...), len(ct)) {
				if cut > len(ct) {
					cut = len(ct)
				}
				if cut > prev {
					c.Write(ct[prev:cut])
					prev = cut
				}
			}
		}
	case "nocrc":
		c.Write(enc(frameBytes(b.items, false, now.Unix(), int32(now.Nanosecond()))))
	case "silent":
		// wait for the client to give up
		io.Copy(io.Discard, c)
		return false
	case "late":
		// answer only after the client's call has returned (the harness closes b.after then); never by sleeping
		if b.after != nil {
			select {
			case <-b.after:
			case <-time.After(10 * time.Second):
			}
		}
		ct := enc(frameBytes(b.items, true, now.Unix(), int32(now.Nanosecond())))
		if _, err := c.Write(ct); err != nil {
			return false
		}
	case "okPieces":
		// the reply written in pieces of b.k bytes, without pauses
		ct := enc(frameBytes(b.items, true, now.Unix(), int32(now.Nanosecond())))
		for i := 0; i < len(ct); i += b.k {
			e := i + b.k
			if e > len(ct) {
				e = len(ct)
			}
			if _, err := c.Write(ct[i:e]); err != nil {
				return false
			}
		}
	case "slow":
		// answer after b.k milliseconds
		time.Sleep(time.Duration(b.k) * time.Millisecond)
		if _, err := c.Write(enc(frameBytes(b.items, true, now.Unix(), int32(now.Nanosecond())))); err != nil {
			return false
		}
	case "okThenReset":
		// answer, then drop the connection abortively (RST instead of FIN)
		c.Write(enc(frameBytes(b.items, true, now.Unix(), int32(now.Nanosecond()))))
		if tc, ok := c.(*net.TCPConn); ok {
			time.Sleep(20 * time.Millisecond) // let the reply be read first
			tc.SetLinger(0)
		}
		return false
	case "closeBefore":
		return false
	case "partialThenServe":
		// a part of the reply, then nothing more of it — but the peer keeps serving the connection: if the client asks
		// again on it (it should not: it gave up on a reply in the middle), the peer answers in its own chain
		ct := enc(frameBytes(b.items, true, now.Unix(), int32(now.Nanosecond())))
		n := b.k - 100
		if n >= len(ct) {
			n = len(ct) - 1
		}
		if n > 0 {
			c.Write(ct[:n])
		}
	case "stallInside":
		// a part of the reply (b.k-100 bytes, possibly ending inside a cipher block), then silence until the client gives up
		ct := enc(frameBytes(b.items, true, now.Unix(), int32(now.Nanosecond())))
		n := b.k - 100
		if n >= len(ct) {
			n = len(ct) - 1
		}
		if n > 0 {
			c.Write(ct[:n])
		}
		io.Copy(io.Discard, c)
		return false
	case "closeInside":
		ct := enc(frameBytes(b.items, true, now.Unix(), int32(now.Nanosecond())))
		n := 32 * b.k
		if b.k >= 100 {
			n = b.k - 100 // a cut at any byte, inside a cipher block
		}
		if n >= len(ct) {
			n = len(ct) - 1
		}
		if n > 0 {
			c.Write(ct[:n])
		}
		return false
	case "garbled":
		g := make([]byte, 32)
		g[0], g[5] = 1, 7
		c.Write(enc(g))
		ct := enc(frameBytes(b.items, true, now.Unix(), int32(now.Nanosecond())))
		n := 32 * b.k
		if n > len(ct) {
			n = len(ct)
		}
		c.Write(ct[:n])
	case "alteredThenFrame":
		// one flipped bit, and right behind the altered reply a second, well-formed frame
		pl := frameBytes(b.items, true, now.Unix(), int32(now.Nanosecond()))
		if b.k < 3 {
			pl[18+5] ^= 1 << uint(b.k) // the length field of the (only, variable-length) item: it now runs into the checksum
			c.Write(enc(pl))
			c.Write(enc(frameBytes(b.items, true, now.Unix(), int32(now.Nanosecond()))))
		} else {
			ct := enc(pl)
			ct[len(ct)-32+4*(b.k-2)] ^= 0x01 // last block; CBC carries the bit into the time stamp of the frame behind
			c.Write(ct)
			c.Write(enc(frameBytes(b.items, false, now.Unix(), int32(now.Nanosecond()))))
		}
	case "badCrcThenFrame":
		// a reply with a wrong checksum, and right behind it a second, well-formed frame
		pl := frameBytes(b.items, true, now.Unix(), int32(now.Nanosecond()))
		l := int(binary.LittleEndian.Uint16(pl[16:]))
		pl[18+l] ^= 0x40
		c.Write(enc(pl))
		c.Write(enc(frameBytes(b.items, true, now.Unix(), int32(now.Nanosecond()))))
	case "badCrcOnce":
		// the reply is damaged the first time this behaviour acts (one flipped time-stamp bit, checksum untouched) and
		// intact every later time
		pl := frameBytes(b.items, true, now.Unix(), int32(now.Nanosecond()))
		if b.once != nil && *b.once == 0 {
			pl[5] ^= 0x10
		}
		if b.once != nil {
			*b.once++
		}
		c.Write(enc(pl))
	case "badCrc":
		pl := frameBytes(b.items, true, now.Unix(), int32(now.Nanosecond()))
		l := int(binary.LittleEndian.Uint16(pl[16:]))
		pl[18+l] ^= 0x40
		c.Write(enc(pl))
	case "malformed":
		// an item that declares one byte more than its container holds, CRC correct
		items := append([]byte{}, b.items...)
		if len(items) >= 7 {
			binary.LittleEndian.PutUint16(items[5:], binary.LittleEndian.Uint16(items[5:])+1)
		} else {
			items = itemBytes(1, 0x11, nil)
		}
		c.Write(enc(frameBytes(items, true, now.Unix(), int32(now.Nanosecond()))))
	case "wrongLength":
		// a fixed-size item (Bool) that announces two bytes, checksum correct
		c.Write(enc(frameBytes(itemBytes(0x00800001, 1, []byte{1, 0}), true, now.Unix(), int32(now.Nanosecond()))))
	case "empty":
		c.Write(enc(frameBytes(nil, true, now.Unix(), int32(now.Nanosecond()))))
	case "trailing":
		pl := frameBytes(b.items, true, now.Unix(), int32(now.Nanosecond()))
		junk := make([]byte, 32)
		junk[3] = 9
		c.Write(enc(append(pl, junk...)))
	}
	return true
}

var _ = math.MaxInt32
