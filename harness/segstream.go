package main

import (
	"encoding/binary"
	"fmt"
	"strings"
	"time"

	"github.com/spali/go-rscp/rscp"
)

// stream seg (C07): the user reply is delivered to the real client in scripted pieces

func cutAt(b []byte, cuts []int) [][]byte {
	var out [][]byte
	prev := 0
	for _, c := range cuts {
		if c > prev && c < len(b) {
			out = append(out, b[prev:c])
			prev = c
		}
	}
	return append(out, b[prev:])
}

// segCase runs one delivery through Client.SendMultiple; returns "<result> ; disc=<0|1>"
// segUseChecksum is the client's UseChecksum option for the following runs (nil = default); it governs what the client
// sends, never what it accepts
var segUseChecksum interface{}

func segRun(bufBlocks uint16, plain []byte, cuts []int) string {
	key := "segkey"
	cl, err := rscp.NewClient(rscp.ClientConfig{Address: "a", Username: "u", Password: "p", Key: key, ReceiveBufferBlockSize: bufBlocks, UseChecksum: segUseChecksum})
	if err != nil {
		return "newclient-error"
	}
	pc := newPeerCipher(key)
	authReply := frameBytes(itemBytes(uint32(rscp.RSCP_AUTHENTICATION), 3, []byte{10}), true, 1, 2)
	sc := &scriptConn{}
	sc.onWrite = func(k int, b []byte) [][]byte {
		// keep the peer's decrypter in step (not needed for the reply, only the encrypter matters)
		if k == 0 {
			ct := make([]byte, len(authReply))
			pc.enc.CryptBlocks(ct, authReply)
			return [][]byte{ct}
		}
		if k == 1 && len(plain) > 0 {
			// encrypt the whole blocks of the stream; a trailing partial block is sent as is
			n := len(plain) - len(plain)%32
			ct := make([]byte, len(plain))
			pc.enc.CryptBlocks(ct[:n], plain[:n])
			copy(ct[n:], plain[n:])
			return cutAt(ct, cuts)
		}
		return nil
	}
	cl.VerifAttachConn(sc)
	done := make(chan string, 1)
	go func() {
		defer func() {
			if r := recover(); r != nil {
				done <- "panic"
			}
		}()
		ms, err := cl.SendMultiple([]rscp.Message{{Tag: rscp.INFO_REQ_UTC_TIME, DataType: rscp.None}})
		if err != nil {
			done <- "err " + clientErrClass(err)
			return
		}
		done <- "ok " + msgsString(ms)
	}()
	var res string
	select {
	case res = <-done:
	case <-time.After(10 * time.Second):
		return "hang ; disc=?"
	}
	conn, _ := cl.VerifState()
	d := "1"
	if conn {
		d = "0"
	}
	return res + " ; disc=" + d
}

func segCase(cw *caseWriter, bufBlocks uint16, plain []byte, cuts []int, label string, base *string) {
	got := segRun(bufBlocks, plain, cuts)
	var hs []string
	for _, s := range cutAt(plain, cuts) {
		hs = append(hs, hexOf(s))
	}
	prop := "pass"
	if base != nil {
		if *base == "" {
			*base = got
		} else if *base != got {
			prop = "FAIL C07 delivery changes the result: one piece gives " + trunc(*base, 80) + ", this delivery " + trunc(got, 80)
		}
	}
	if strings.HasPrefix(got, "panic") || strings.HasPrefix(got, "hang") {
		prop = "FAIL * client " + strings.SplitN(got, " ", 2)[0] + " in receive"
	}
	if strings.Contains(label, "bad-crc") && strings.HasPrefix(got, "ok ") {
		prop = "FAIL C04 a reply with a wrong checksum is returned to the caller: " + trunc(got, 100)
	}
	if prop != "pass" && strings.HasPrefix(prop, "FAIL C07") && strings.HasPrefix(label, "frame ") {
		// a well-formed reply of a scheme-following peer that the client does not return under this delivery
		prop += " ;; FAIL C06 the client cannot decode the reply of a peer that follows the encryption scheme under this delivery"
	}
	cw.add(fmt.Sprintf("recv %d %s", bufBlocks, strings.Join(hs, " ")), got, "N seg "+label, prop)
}

func init() {
	streams["seg"] = func(g *gen, cw *caseWriter, n int, thorough bool) {
		bufs := []uint16{1, 2, 3, 4, 7, 64, 2048, 0, 2050, 65535, 2049}
		for i := 0; i < n; i++ {
			// the reply stream
			budget := 40 + g.pick(1200)
			ms := g.msgs(1+g.pick(2), 1+g.pick(5), &budget)
			switch i % 7 {
			case 5:
				// payload with long runs of zero bytes: whole cipher blocks of the reply are all zero
				ms = append(ms, rscp.Message{Tag: rscp.WB_EXTERN_DATA, DataType: rscp.ByteArray, Value: make([]byte, 70+g.pick(120))},
					rscp.Message{Tag: 0x00800007, DataType: rscp.CString, Value: strings.Repeat("\x00", 64+g.pick(40))})
			case 6:
				// payload that carries a complete RSCP frame starting at a block boundary of the outer frame (18 bytes of
				// header + 7 of the item header + 7 of filler = 32)
				inner := plainFrame([]rscp.Message{{Tag: rscp.BAT_INDEX, DataType: rscp.UInt16, Value: uint16(g.pick(9))}}, g.chance(0.5), g.time())
				ms = append([]rscp.Message{{Tag: rscp.WB_EXTERN_DATA, DataType: rscp.ByteArray, Value: append(make([]byte, 7+32*g.pick(2)), inner...)}}, ms...)
			}
			plain := plainFrame(ms, g.chance(0.8), g.time())
			if plain == nil {
				continue
			}
			kind := "frame"
			switch g.pick(9) {
			case 0:
				plain = append(plain, make([]byte, 32*(1+g.pick(2)))...)
				kind = "frame+zero-blocks"
			case 1:
				plain[0] ^= 0x40
				kind = "bad-magic"
			case 2:
				if len(plain) > 32 {
					plain = plain[:len(plain)-32]
					kind = "truncated"
				}
			case 3:
				l := int(binary.LittleEndian.Uint16(plain[16:]))
				if plain[3]&0x10 != 0 {
					plain[18+l] ^= 1
					kind = "bad-crc"
				}
			case 4:
				plain = plainFrame(nil, true, g.time())
				kind = "empty-frame"
			case 5:
				// the reply followed at once by a second frame (what a device with a pending notification may do)
				second := plainFrame([]rscp.Message{{Tag: rscp.BAT_INDEX, DataType: rscp.UInt16, Value: uint16(3)}}, true, g.time())
				plain = append(append([]byte{}, plain...), second...)
				kind = "frame+second-frame"
			case 6:
				junk := g.bytes(32 * (1 + g.pick(2)))
				junk[0] |= 1
				plain = append(append([]byte{}, plain...), junk...)
				kind = "frame+junk-blocks"
			}
			surplus := kind == "frame+second-frame" || kind == "frame+junk-blocks"
			if kind == "bad-crc" && i%2 == 0 {
				segUseChecksum = false
				kind = "bad-crc client-without-checksums"
			}
			base := ""
			basep := &base
			if surplus {
				basep = nil // what follows the reply is not padding: the outcome may depend on where the transport cuts
			}
			// one piece into a buffer that holds it
			segCase(cw, 2049, plain, nil, kind+" one-piece blocks="+fmt.Sprint(len(plain)/32), basep)
			bb := bufs[g.pick(len(bufs))]
			// every single cut (sampled unless thorough or small)
			for c := 1; c < len(plain); c++ {
				if !thorough && len(plain) > 96 && g.pick(len(plain)/24) != 0 {
					continue
				}
				segCase(cw, bufs[g.pick(len(bufs))], plain, []int{c}, kind+" cut1", basep)
			}
			// pairs of cuts
			for k := 0; k < 12; k++ {
				a, b := 1+g.pick(len(plain)-1), 1+g.pick(len(plain)-1)
				if a > b {
					a, b = b, a
				}
				segCase(cw, bb, plain, []int{a, b}, kind+" cut2", basep)
			}
			// uniform piece sizes
			for _, sz := range []int{1, 2, 7, 20, 31, 32, 33, 50, 63, 64, 65, 96, 1 + g.pick(96)} {
				var cuts []int
				for c := sz; c < len(plain); c += sz {
					cuts = append(cuts, c)
				}
				segCase(cw, bufs[g.pick(len(bufs))], plain, cuts, fmt.Sprintf("%s uniform=%d", kind, sz), basep)
			}
			// random multi-cut patterns
			for k := 0; k < 6; k++ {
				var cuts []int
				for c := 1 + g.pick(40); c < len(plain); c += 1 + g.pick(70) {
					cuts = append(cuts, c)
				}
				segCase(cw, bufs[g.pick(len(bufs))], plain, cuts, kind+" random-cuts", basep)
			}
			segUseChecksum = nil
		}
		// fixed cases that every run contains: a reply with a wrong checksum (client with and without the checksum option),
		// a reply followed at once by a second frame or by junk — for buffers of 1, 2, 4 and 64 blocks, in one piece,
		// cut inside the first block, cut inside the second block, and byte by byte
		{
			reply := []rscp.Message{{Tag: rscp.INFO_SERIAL_NUMBER, DataType: rscp.CString, Value: "S10-123456789012345678901234567890123456789"}, {Tag: rscp.EMS_POWER_PV, DataType: rscp.Int32, Value: int32(4500)}}
			good := plainFrame(reply, true, g.time())
			bad := append([]byte{}, good...)
			l := int(binary.LittleEndian.Uint16(bad[16:]))
			bad[18+7+3] ^= 0x04 // one bit of the payload
			_ = l
			second := plainFrame([]rscp.Message{{Tag: rscp.BAT_INDEX, DataType: rscp.UInt16, Value: uint16(3)}}, true, g.time())
			junk := make([]byte, 32)
			junk[0], junk[31] = 0x7f, 1
			streams := []struct {
				name  string
				plain []byte
				crc   interface{}
			}{{"bad-crc", bad, nil}, {"bad-crc client-without-checksums", bad, false}, {"frame client-without-checksums", good, false},
				{"frame+second-frame", append(append([]byte{}, good...), second...), nil}, {"frame+junk-blocks", append(append([]byte{}, good...), junk...), nil}}
			for _, st := range streams {
				segUseChecksum = st.crc
				var bytewise []int
				for c := 1; c < len(st.plain); c++ {
					bytewise = append(bytewise, c)
				}
				for _, bb := range []uint16{1, 2, 4, 64} {
					for _, cuts := range [][]int{nil, {20}, {40}, {32}, {len(good)}, {20, len(good) + 5}, bytewise} {
						segCase(cw, bb, st.plain, cuts, fmt.Sprintf("%s fixed cuts=%d", st.name, len(cuts)), nil)
					}
				}
			}
			segUseChecksum = nil
			// checksummed replies of 32 consecutive sizes (the checksum ends in every position of a cipher block) for a client
			// that does not send checksums itself: what the client accepts does not depend on its own option
			segUseChecksum = false
			for extra := 0; extra < 32; extra++ {
				pl := plainFrame([]rscp.Message{{Tag: rscp.INFO_SERIAL_NUMBER, DataType: rscp.CString, Value: strings.Repeat("s", 20+extra)}}, true, g.time())
				base := ""
				segCase(cw, 2049, pl, nil, fmt.Sprintf("frame client-without-checksums size=%d one-piece", len(pl)), &base)
				segCase(cw, 1, pl, nil, fmt.Sprintf("frame client-without-checksums size=%d buffer=1", len(pl)), &base)
				segCase(cw, 3, pl, []int{32}, fmt.Sprintf("frame client-without-checksums size=%d 32+rest", len(pl)), &base)
			}
			segUseChecksum = nil
		}
		// a reply longer than 2050 reads when it trickles in byte by byte
		{
			ms := []rscp.Message{{Tag: rscp.INFO_SERIAL_NUMBER, DataType: rscp.CString, Value: strings.Repeat("x", 2200)}}
			plain := plainFrame(ms, true, g.time())
			base := ""
			segCase(cw, 2049, plain, nil, "long-reply one-piece", &base)
			var cuts []int
			for c := 1; c < len(plain); c++ {
				cuts = append(cuts, c)
			}
			for _, bb := range []uint16{1, 4, 2048} {
				segCase(cw, bb, plain, cuts, "long-reply byte-by-byte", &base)
			}
		}
		// replies at the protocol maximum (2048 and 2049 blocks) with the largest receive buffers
		for _, dataLen := range []int{65507, 65521} {
			ms := []rscp.Message{{Tag: rscp.INFO_SERIAL_NUMBER, DataType: rscp.CString, Value: strings.Repeat("y", dataLen)}}
			plain := plainFrame(ms, true, g.time())
			base := ""
			segCase(cw, 1, plain, nil, fmt.Sprintf("max-reply blocks=%d buffer=1", len(plain)/32), &base)
			for _, bb := range []uint16{2047, 2048, 2049} {
				segCase(cw, bb, plain, nil, fmt.Sprintf("max-reply blocks=%d one-piece", len(plain)/32), &base)
				segCase(cw, bb, plain, []int{5}, fmt.Sprintf("max-reply blocks=%d 5+rest", len(plain)/32), &base)
				segCase(cw, bb, plain, []int{len(plain) - 7}, fmt.Sprintf("max-reply blocks=%d rest+7", len(plain)/32), &base)
			}
		}
		// the largest replies one byte per read (more reads than the largest frame has bytes, padding included)
		for _, dataLen := range []int{65521, 65508} {
			ms := []rscp.Message{{Tag: rscp.INFO_SERIAL_NUMBER, DataType: rscp.CString, Value: strings.Repeat("z", dataLen)}}
			plain := plainFrame(ms, dataLen%2 == 1, g.time())
			var cuts []int
			for c := 1; c < len(plain); c++ {
				cuts = append(cuts, c)
			}
			base := ""
			segCase(cw, 2049, plain, nil, fmt.Sprintf("max-reply blocks=%d one-piece", len(plain)/32), &base)
			segCase(cw, 1, plain, cuts, fmt.Sprintf("max-reply blocks=%d byte-by-byte", len(plain)/32), &base)
			if thorough {
				segCase(cw, 2049, plain, cuts, fmt.Sprintf("max-reply blocks=%d byte-by-byte big-buffer", len(plain)/32), &base)
			}
		}
		_ = time.Now
	}
	replayers["recv"] = func(op string) string {
		f := strings.Fields(op)
		if len(f) < 3 {
			return "bad-op"
		}
		var bb int
		fmt.Sscan(f[1], &bb)
		var plain []byte
		var cuts []int
		for _, h := range f[2:] {
			b, err := unhex(h)
			if err != nil {
				return "bad-op"
			}
			plain = append(plain, b...)
			cuts = append(cuts, len(plain))
		}
		return segRun(uint16(bb), plain, cuts[:len(cuts)-1])
	}
}
