package main

import (
	"bytes"
	"encoding/hex"
	"encoding/json"
	"fmt"
	"math"
	"net"
	"os"
	"os/exec"
	"path/filepath"
	"strconv"
	"strings"
	"sync"
	"time"

	"github.com/spali/go-rscp/rscp"
)

// stream cli (C15, and the CLI part of C11): the real e3dc binary as a child process against a fake device

type device struct {
	ln      net.Listener
	p       *peer
	mu      sync.Mutex
	auth    behaviour
	users   []behaviour
	userNo  int
	authTag uint32
}

func startDevice(key string, auth behaviour, users []behaviour) (*device, error) {
	ln, err := net.Listen("tcp", "127.0.0.1:0")
	if err != nil {
		return nil, err
	}
	d := &device{ln: ln, p: newPeer(key), auth: auth, users: users, authTag: uint32(rscp.RSCP_REQ_AUTHENTICATION)}
	d.p.decide = func(conn int, f peerFrame) behaviour {
		if strings.HasPrefix(f.text, fmt.Sprintf("[ M %d ", d.authTag)) {
			return d.auth
		}
		d.mu.Lock()
		defer d.mu.Unlock()
		if d.userNo < len(d.users) {
			d.userNo++
			return d.users[d.userNo-1]
		}
		return behaviour{kind: "closeBefore"}
	}
	go func() {
		for n := 0; ; n++ {
			c, err := ln.Accept()
			if err != nil {
				return
			}
			d.p.wg.Add(1)
			go d.p.serve(n, c)
		}
	}()
	return d, nil
}

func (d *device) port() int { return d.ln.Addr().(*net.TCPAddr).Port }
func (d *device) stop()     { d.ln.Close() }
func (d *device) frames() []string {
	d.p.mu.Lock()
	defer d.p.mu.Unlock()
	var out []string
	for _, f := range d.p.frames {
		out = append(out, f.text)
	}
	return out
}

type cliResult struct {
	status int
	stdout string
	stderr string
}

func runCLI(dir string, args []string, stdin string, env []string) cliResult {
	cmd := exec.Command(os.Getenv("VERIF_E3DC"), args...)
	cmd.Dir = dir
	cmd.Env = append([]string{"PATH=" + os.Getenv("PATH"), "HOME=" + dir}, env...)
	var so, se bytes.Buffer
	cmd.Stdout, cmd.Stderr = &so, &se
	if stdin == "\x00PIPE" {
		// a pipe that nobody writes to and nobody closes (a service manager, ssh without a terminal)
		if pr, pw, err := os.Pipe(); err == nil {
			defer pr.Close()
			defer pw.Close()
			cmd.Stdin = pr
		}
	} else if stdin == "\x00DIR" {
		if d, err := os.Open(dir); err == nil {
			defer d.Close()
			cmd.Stdin = d
		}
	} else if stdin != "" {
		cmd.Stdin = strings.NewReader(stdin)
	} else {
		devnull, _ := os.Open(os.DevNull)
		defer devnull.Close()
		cmd.Stdin = devnull
	}
	done := make(chan error, 1)
	cmd.Start()
	go func() { done <- cmd.Wait() }()
	select {
	case <-done:
	case <-time.After(30 * time.Second):
		cmd.Process.Kill()
		<-done
		return cliResult{-9, so.String(), se.String() + "\nTIMEOUT"}
	}
	return cliResult{cmd.ProcessState.ExitCode(), so.String(), se.String()}
}

type cliCase struct {
	label            string
	flags            string // help | version | err | ok
	args             []string
	stdin            string
	env              []string
	config           string // content of .config in the working directory ("" = none)
	format           string
	split            bool
	reqText          string
	reqJ             *jnode // nil = not JSON
	user, pw         string
	key              string
	auth             replySpec
	users            []replySpec
	needsDev         bool
	mustFail         bool           // the scenario contains a connection / authentication / protocol failure
	replyMs          []rscp.Message // the one reply of an unsplit healthy exchange, for the Go-side output oracle of C13
	mustSucceed      bool           // valid options, valid request, a device that answers everything: status 0 and a document
	stdinDir         bool           // standard input is a directory (reading it fails)
	stdinPipe        bool           // standard input is a pipe that stays open and silent
	checkSplitOutput bool           // replyMs is the concatenation of the replies of a split run
	anyOutcome       bool           // the model's prediction is not compared (the outcome depends on the environment); the contract is still judged
}

func (c *cliCase) op() string {
	var toks []string
	if c.reqJ != nil {
		c.reqJ.tokens(&toks)
	} else {
		toks = []string{"NOJSON"}
	}
	var rs []string
	for _, u := range c.users {
		rs = append(rs, u.model)
	}
	sp := "0"
	if c.split {
		sp = "1"
	}
	f := c.format
	if f == "" {
		f = "jsonmerged"
	}
	return fmt.Sprintf("cli %s %s %s %s %s A %s R %d %s | %s", c.flags, hexOf([]byte(f)), sp, hexOf([]byte(c.user)), hexOf([]byte(c.pw)), c.auth.model, len(rs), strings.Join(rs, " "),
		strings.Join(toks, " "))
}

func cliExec(rundir string, n int, c *cliCase) (impl, prop string) {
	dir := filepath.Join(rundir, fmt.Sprintf("cli-%d", n))
	os.MkdirAll(dir, 0o755)
	defer os.RemoveAll(dir)
	var dev *device
	args := append([]string{}, c.args...)
	if c.needsDev {
		var us []behaviour
		for _, u := range c.users {
			us = append(us, u.beh)
		}
		var err error
		dev, err = startDevice(c.key, c.auth.beh, us)
		if err != nil {
			return "no-device", ""
		}
		defer dev.stop()
		for i, a := range args {
			args[i] = strings.ReplaceAll(a, "{PORT}", strconv.Itoa(dev.port()))
		}
	}
	cfg := c.config
	if dev != nil {
		cfg = strings.ReplaceAll(cfg, "{PORT}", strconv.Itoa(dev.port()))
	}
	if cfg != "" {
		os.WriteFile(filepath.Join(dir, ".config"), []byte(cfg), 0o600)
	}
	env := append([]string{}, c.env...)
	if dev != nil {
		for i := range env {
			env[i] = strings.ReplaceAll(env[i], "{PORT}", strconv.Itoa(dev.port()))
		}
	}
	for i, a := range args {
		if a == "{REQFILE}" {
			p := filepath.Join(dir, "request.json")
			os.WriteFile(p, []byte(c.reqText), 0o600)
			args[i] = p
		}
	}
	for i, a := range args {
		if a == "{SOCKET}" {
			sp := filepath.Join(dir, "sock")
			if l, err := net.Listen("unix", sp); err == nil {
				defer l.Close()
			}
			args[i] = sp
		}
	}
	stdin := c.stdin
	if c.stdinDir {
		stdin = "\x00DIR"
	}
	if c.stdinPipe {
		stdin = "\x00PIPE"
	}
	r := runCLI(dir, args, stdin, env)
	var frames []string
	if dev != nil {
		time.Sleep(10 * time.Millisecond)
		frames = dev.frames()
	}
	// canonical result
	out := "-"
	docOK := false
	if r.stdout != "" {
		if toks, ok := joTokens([]byte(strings.TrimSuffix(r.stdout, "\n"))); ok && strings.HasSuffix(r.stdout, "\n") {
			out = toks
			docOK = true
		} else {
			out = "INVALID"
		}
	}
	se := "0"
	if r.stderr != "" {
		se = "1"
	}
	impl = fmt.Sprintf("status=%d stdout=%s stderr=%s frames=%d : %s", r.status, out, se, len(frames), strings.Join(frames, " , "))
	// the process contract, judged in Go
	prop = "pass"
	panicTrace := strings.Contains(r.stderr, "panic:") || strings.Contains(r.stderr, "goroutine ")
	switch {
	case panicTrace || r.status == 2 && strings.Contains(r.stderr, "runtime."):
		prop = "FAIL C15 the tool ends in a Go panic trace: " + trunc(strings.ReplaceAll(r.stderr, "\n", " / "), 160)
	case r.status == -9:
		prop = "FAIL C15 the tool does not terminate"
	case c.flags == "help" || c.flags == "version":
		if r.status != 0 || r.stdout != "" || r.stderr == "" {
			prop = fmt.Sprintf("FAIL C15 -help/-version must print to standard error with status 0 (status %d, stdout %d bytes, stderr %d bytes)", r.status, len(r.stdout), len(r.stderr))
		}
	case r.status == 0 && c.mustFail:
		prop = "FAIL C15 the exchange failed but the tool exits with status 0 and prints " + trunc(r.stdout, 80)
		for _, u := range append([]replySpec{c.auth}, c.users...) {
			if u.beh.kind == "badCrc" {
				prop += " ;; FAIL C04 a reply with a wrong checksum is not reported as an error by the tool"
				break
			}
		}
	case r.status == 0 && c.mustSucceed && dev != nil && len(frames) != 1+len(c.users):
		prop = fmt.Sprintf("FAIL C15 a run of %d exchange(s) put %d frames on the wire (one authentication and one frame per exchange are due): %s", len(c.users), len(frames), trunc(strings.Join(frames, " , "), 160))
	case r.status == 0:
		if !docOK {
			prop = "FAIL C15 status 0 without exactly one JSON document on standard output: " + trunc(r.stdout, 80) + " ;; FAIL C13 the output is not one valid JSON document: " + trunc(r.stdout, 80)
		} else if c.replyMs != nil && (!c.split || c.checkSplitOutput) {
			f := c.format
			if f == "" {
				f = "jsonmerged"
			}
			if why := structureOK(c.replyMs, f, []byte(r.stdout)); why != "" {
				prop = "FAIL C13 what the tool prints is not what the device answered: " + why
			}
		}
	default:
		if c.mustSucceed {
			prop = fmt.Sprintf("FAIL C15 a valid request answered by the device ends with status %d: %s ;; FAIL C13 the answer of the device is not reported: %s", r.status, trunc(strings.ReplaceAll(r.stderr, "\n", " / "), 120), trunc(strings.ReplaceAll(r.stderr, "\n", " / "), 120))
			if strings.HasPrefix(c.label, "quoted key") {
				prop += " ;; FAIL C06 the tool does not use the key as configured (" + c.key + "): a device keyed with that string cannot talk to it"
			}
		} else if r.stdout != "" || r.stderr == "" {
			prop = fmt.Sprintf("FAIL C15 failure (status %d) must print a diagnostic on standard error and nothing on standard output (stdout %d bytes, stderr %d bytes)", r.status, len(r.stdout), len(r.stderr))
		}
	}
	return impl, prop
}

func init() {
	streams["cli"] = func(g *gen, cw *caseWriter, n int, thorough bool) {
		rundir := filepath.Dir(os.Getenv("VERIF_E3DC"))
		grant := frameReply([]rscp.Message{{Tag: rscp.RSCP_AUTHENTICATION, DataType: rscp.UChar8, Value: uint8(10)}})
		refuse := frameReply([]rscp.Message{{Tag: rscp.RSCP_AUTHENTICATION, DataType: rscp.Int32, Value: int32(0)}})
		base := func(label string) *cliCase {
			return &cliCase{label: label, flags: "ok", user: "cliuser", pw: "clipassword", key: "clikey", auth: grant, needsDev: true,
				args: []string{"-host", "127.0.0.1", "-port", "{PORT}", "-user", "cliuser", "-password", "clipassword", "-key", "clikey"}}
		}
		// a request of k top-level items and the device's answers (one message per request)
		mkReq := func(c *cliCase, k int, notation bool) []rscp.Message {
			var ms []rscp.Message
			root := jarr()
			for i := 0; i < k; i++ {
				m := g.jsonRequest(1)
				for m.Tag == rscp.RSCP_REQ_AUTHENTICATION {
					m = g.jsonRequest(1) // the fake device tells authentication from user frames by this tag
				}
				ms = append(ms, m)
				if notation {
					root.arr = append(root.arr, g.requestJ(m, false))
				} else {
					root.arr = append(root.arr, g.requestJ(m, true))
				}
			}
			var sb strings.Builder
			root.text(&sb, nil)
			c.reqText, c.reqJ = sb.String(), root
			return ms
		}
		answers := func(c *cliCase, ms []rscp.Message) {
			var rs []rscp.Message
			for i, m := range ms {
				rs = append(rs, rscp.Message{Tag: m.Tag | 1<<23, DataType: rscp.CString, Value: fmt.Sprintf("answer %d", i)})
			}
			if c.split {
				for _, r := range rs {
					c.users = append(c.users, frameReply([]rscp.Message{r}))
				}
			} else {
				c.users = []replySpec{frameReply(rs)}
			}
		}
		var cases []*cliCase
		add := func(c *cliCase) { cases = append(cases, c) }
		// ---- flag / configuration classes ---------------------------------------------------------
		for _, a := range [][]string{{"-help"}, {"-h"}, {"--help"}} {
			c := base("help " + a[0])
			c.flags, c.needsDev, c.args = "help", false, append(a, c.args...)
			c.reqText, c.reqJ = `["INFO_REQ_UTC_TIME"]`, jarr(jstr("INFO_REQ_UTC_TIME"))
			add(c)
		}
		{
			c := base("version")
			c.flags, c.needsDev, c.args = "version", false, []string{"-version"}
			add(c)
			c = base("help without anything else")
			c.flags, c.needsDev, c.args = "help", false, []string{"-help"}
			add(c)
		}
		for _, drop := range []string{"-host", "-user", "-password", "-key"} {
			c := base("missing " + drop)
			c.flags, c.needsDev = "err", false
			var a []string
			for i := 0; i < len(c.args); i += 2 {
				if c.args[i] != drop {
					a = append(a, c.args[i], strings.ReplaceAll(c.args[i+1], "{PORT}", "5033"))
				}
			}
			c.args = append(a, `["INFO_REQ_UTC_TIME"]`)
			add(c)
		}
		for _, extra := range [][]string{{"-bogus"}, {"-port", "abc"}, {"-debug", "-3"}, {"-config", "/nonexistent/e3dc.conf"}, {"-file", "/nonexistent/request.json"}, {"-port"}} {
			c := base("unusable flag " + strings.Join(extra, " "))
			c.flags, c.needsDev = "err", false
			c.args = []string{"-host", "127.0.0.1", "-user", "u", "-password", "p", "-key", "k"}
			c.args = append(c.args, extra...)
			if extra[0] != "-file" {
				c.args = append(c.args, `["INFO_REQ_UTC_TIME"]`)
			}
			add(c)
		}
		{
			c := base("no request at all")
			c.flags, c.needsDev = "err", false
			c.args = []string{"-host", "127.0.0.1", "-user", "u", "-password", "p", "-key", "k"}
			add(c)
			c = base("bad config file content")
			c.flags, c.needsDev, c.config = "err", false, "nosuchoption=1\n"
			c.args = []string{`["INFO_REQ_UTC_TIME"]`}
			add(c)
		}
		// ---- ways to pass credentials and the request ----------------------------------------------
		for way := 0; way < 5; way++ {
			c := base([]string{"request as argument", "request from -file", "request on standard input", "credentials from .config", "credentials from the environment"}[way])
			ms := mkReq(c, 1+g.pick(3), true)
			answers(c, ms)
			switch way {
			case 0:
				c.args = append(c.args, c.reqText)
			case 1:
				c.args = append(c.args, "-file", "{REQFILE}")
			case 2:
				c.stdin = c.reqText
			case 3:
				c.args = []string{c.reqText}
				c.config = "host=127.0.0.1\nport={PORT}\nuser=cliuser\npassword=clipassword\nkey=clikey\n"
			case 4:
				c.args = []string{c.reqText}
				c.env = []string{"E3DC_HOST=127.0.0.1", "E3DC_PORT={PORT}", "E3DC_USER=cliuser", "E3DC_PASSWORD=clipassword", "E3DC_KEY=clikey"}
			}
			add(c)
		}
		// ---- request texts × output formats × split × device behaviour -----------------------------
		formats := []string{"json", "jsonsimple", "jsonmerged", "", "xml", "JSON", "json ", " jsonmerged", "jsonsimple\t", "json\n"}
		for i := 0; i < n; i++ {
			c := base("exchange")
			c.format = formats[g.pick(len(formats))]
			c.split = g.chance(0.5)
			ms := mkReq(c, 1+g.pick(4), g.chance(0.7))
			answers(c, ms)
			switch g.pick(10) {
			case 0:
				c.auth = refuse
				c.label, c.mustFail = "authentication refused", true
				// the other ways a device says no (or something that is not a level at all)
				switch g.pick(7) {
				case 0:
					c.auth = frameReply([]rscp.Message{{Tag: rscp.RSCP_AUTHENTICATION, DataType: rscp.Error, Value: rscp.RscpError(2 + g.pick(6))}})
				case 1:
					c.auth = frameReply([]rscp.Message{{Tag: rscp.RSCP_AUTHENTICATION, DataType: rscp.UInt16, Value: uint16(10)}})
				case 2:
					c.auth = frameReply([]rscp.Message{{Tag: rscp.RSCP_AUTHENTICATION, DataType: rscp.CString, Value: "10"}})
				case 3:
					c.auth = frameReply([]rscp.Message{{Tag: rscp.RSCP_AUTHENTICATION_USER, DataType: rscp.UChar8, Value: uint8(10)}})
				case 4:
					c.auth = frameReply([]rscp.Message{{Tag: rscp.RSCP_AUTHENTICATION, DataType: rscp.UChar8, Value: uint8(0)}})
				case 5:
					c.auth = frameReply([]rscp.Message{{Tag: rscp.RSCP_AUTHENTICATION, DataType: rscp.Uint64, Value: uint64(1) << 40}})
				}
			case 1:
				c.auth = replySpec{behaviour{kind: "closeBefore"}, "X"}
				c.label, c.mustFail = "device closes at authentication", true
			case 2:
				k := g.pick(len(c.users))
				c.users[k] = replySpec{behaviour{kind: "closeBefore"}, "X"}
				c.label, c.mustFail = "device closes at a request", true
			case 3:
				k := g.pick(len(c.users))
				c.users[k] = replySpec{behaviour{kind: "garbled", k: 0}, "P invalidMagic 0"}
				c.label, c.mustFail = "device garbles a reply", true
			case 4:
				k := g.pick(len(c.users))
				c.users[k] = replySpec{behaviour{kind: "badCrc", items: encItems([]rscp.Message{{Tag: 0x00800001, DataType: rscp.UChar8, Value: uint8(1)}})}, "P invalidCrc 0"}
				c.label, c.mustFail = "device sends a bad CRC", true
			}
			if c.format != "" {
				c.args = append(c.args, "-output", c.format)
			}
			if c.split {
				c.args = append(c.args, "-splitrequests")
			}
			c.args = append(c.args, c.reqText)
			add(c)
		}
		// tiny and odd request texts from a file and from standard input (one or two bytes, an incomplete UTF-8 sequence, a
		// byte order mark with and without a request behind it): a diagnostic, never a trace
		for _, txt := range []string{"\xef", "\xef\xbb", "\xef\xbb\xbf", "\xef\xbb\xbf[\"INFO_REQ_SERIAL_NUMBER\"]", "\xff", "\xfe\xff", "[", "]", "{", "\"", "0", " ", "\n", "\x00", "\xc3"} {
			for _, way := range []string{"file", "stdin"} {
				c := base("odd request text from " + way + " " + strconv.Quote(txt))
				c.reqText, c.reqJ, c.mustFail = txt, nil, true
				c.users = []replySpec{frameReply([]rscp.Message{{Tag: rscp.INFO_SERIAL_NUMBER, DataType: rscp.CString, Value: "s"}})}
				if way == "file" {
					c.args = append(c.args, "-file", "{REQFILE}")
				} else {
					c.stdin = txt
				}
				add(c)
			}
		}
		// the host given with a port, in brackets, with a scheme, empty port: a diagnostic (or a working connection), never a trace
		for _, h := range []string{"127.0.0.1:{PORT}", "127.0.0.1:", "[::1]:{PORT}", "[127.0.0.1]", "tcp://127.0.0.1", "127.0.0.1/", "localhost:{PORT}", ":{PORT}", "::1"} {
			c := base("host written as " + h)
			c.args = []string{"-host", h, "-port", "{PORT}", "-user", "cliuser", "-password", "clipassword", "-key", "clikey"}
			ms := mkReq(c, 1, true)
			answers(c, ms)
			c.args = append(c.args, c.reqText)
			c.anyOutcome = true // whether such a host connects depends on the resolver; the contract is judged, not the model
			add(c)
		}
		// replies that carry the tags the library masks in its log (password, pass phrase), replies of data type Error with
		// named and nameless codes — every format, split and unsplit: printed as received
		for k, m := range []rscp.Message{{Tag: rscp.RSCP_AUTHENTICATION_PASSWORD, DataType: rscp.CString, Value: "not-masked-in-output"},
			{Tag: rscp.RSCP_REQ_SET_ENCRYPTION_PASSPHRASE, DataType: rscp.CString, Value: "phrase"},
			{Tag: rscp.BAT_DATA, DataType: rscp.Error, Value: rscp.RscpError(2)}, {Tag: rscp.BAT_DATA, DataType: rscp.Error, Value: rscp.RscpError(77)},
			{Tag: rscp.BAT_DATA, DataType: rscp.Error, Value: rscp.RscpError(4)}, {Tag: rscp.EMS_POWER_PV, DataType: rscp.Error, Value: rscp.RscpError(4)},
			{Tag: rscp.RSCP_GENERAL_ERROR, DataType: rscp.Error, Value: rscp.RscpError(7)}} {
			for _, f := range []string{"json", "jsonsimple", "jsonmerged"} {
				for _, split := range []bool{false, true} {
					c := base(fmt.Sprintf("reply kind %d", k))
					c.format, c.split, c.mustSucceed = f, split, true
					mkReq(c, 1, true)
					c.replyMs = []rscp.Message{m, {Tag: rscp.BAT_DATA, DataType: rscp.Container, Value: []rscp.Message{m}}}
					if split {
						c.replyMs = []rscp.Message{m}
					}
					c.users = []replySpec{frameReply(c.replyMs)}
					c.args = append(c.args, "-output", f)
					if split {
						c.args = append(c.args, "-splitrequests")
					}
					c.args = append(c.args, c.reqText)
					add(c)
				}
			}
		}
		// a split run of three requests in which one reply arrives damaged (wrong checksum) or not at all: the run fails,
		// whichever of the three it is
		for pos := 0; pos < 3; pos++ {
			for _, kind := range []string{"badCrc", "closeBefore", "garbled"} {
				c := base(fmt.Sprintf("split run, reply %d %s", pos, kind))
				c.split, c.mustFail = true, true
				ms := mkReq(c, 3, true)
				answers(c, ms)
				switch kind {
				case "badCrc":
					c.users[pos] = replySpec{behaviour{kind: "badCrc", items: encItems([]rscp.Message{{Tag: 0x00800001, DataType: rscp.UChar8, Value: uint8(1)}})}, "P invalidCrc 0"}
				case "closeBefore":
					c.users[pos] = replySpec{behaviour{kind: "closeBefore"}, "X"}
				default:
					c.users[pos] = replySpec{behaviour{kind: "garbled", k: 0}, "P invalidMagic 0"}
				}
				c.args = append(c.args, "-splitrequests", c.reqText)
				add(c)
			}
		}
		// a split run whose replies all arrive under the same container tag (three batteries asked one after the other):
		// the merged output holds all of them, like the unsplit run
		for _, f := range []string{"jsonmerged", "jsonsimple", "json"} {
			c := base("split run, same container tag in every reply")
			c.format, c.split, c.mustSucceed = f, true, true
			mkReq(c, 3, true)
			var all []rscp.Message
			c.users = nil
			for k := 0; k < 3; k++ {
				m := rscp.Message{Tag: rscp.BAT_DATA, DataType: rscp.Container, Value: []rscp.Message{{Tag: rscp.BAT_INDEX, DataType: rscp.UInt16, Value: uint16(k)}, {Tag: rscp.BAT_RSOC, DataType: rscp.Float32, Value: float32(40 + k)}}}
				all = append(all, m)
				c.users = append(c.users, frameReply([]rscp.Message{m}))
			}
			c.replyMs, c.checkSplitOutput = all, true
			c.args = append(c.args, "-output", f, "-splitrequests", c.reqText)
			add(c)
		}
		// the configuration file option pointing at things that are no readable file; standard input that cannot be read:
		// a diagnostic on standard error and a non-zero status, never silence, never a trace
		for _, cfgPath := range []string{"/proc/self/mem", "/dev/null", "/", "/nonexistent/dir/file", "{SOCKET}"} {
			c := base("config option pointing at " + cfgPath)
			c.args = append([]string{"-config", cfgPath}, c.args...)
			ms := mkReq(c, 1, true)
			answers(c, ms)
			c.args = append(c.args, c.reqText)
			c.anyOutcome = true
			add(c)
		}
		for _, a := range [][]string{{"-version"}, {"-version", "-debug", "5"}} {
			c := base("version asked with everything configured and standard input an idle pipe")
			c.flags, c.needsDev = "version", false
			c.args = append(append([]string{}, c.args...), a...)
			for i, x := range c.args {
				c.args[i] = strings.ReplaceAll(x, "{PORT}", "5033")
			}
			c.stdinPipe, c.anyOutcome = true, true
			add(c)
		}
		{
			c := base("standard input is a directory")
			ms := mkReq(c, 1, true)
			answers(c, ms)
			c.stdinDir, c.anyOutcome = true, true
			add(c)
			c = base("standard input is a directory, -help given")
			c.args = append(c.args, "-help")
			c.stdinDir, c.anyOutcome = true, true
			c.needsDev = false
			add(c)
		}
		// keys, user names and passwords that begin and end with quote characters (nobody strips them), given by flag, by
		// environment and in the configuration file; the long spellings of the options
		for k, v := range []string{`"my key"`, `'k'`, `"`, `""`, `'single`, "`tick`", "my$ecretKey", "$HOME", "${PATH}x", "a$", "%HOME%", "~", "k#comment", "a;b"} {
			c := base("quoted key " + v)
			c.key, c.mustSucceed = v, true
			ms := mkReq(c, 1, true)
			answers(c, ms)
			switch k % 3 {
			case 0:
				c.args = []string{"-host", "127.0.0.1", "-port", "{PORT}", "-user", "cliuser", "-password", "clipassword", "-key", v, c.reqText}
			case 1:
				c.args = []string{"-host", "127.0.0.1", "-port", "{PORT}", "-user", "cliuser", "-password", "clipassword", c.reqText}
				c.env = []string{"E3DC_KEY=" + v}
			default:
				c.args = []string{"--host=127.0.0.1", "--port", "{PORT}", "--user=cliuser", "--password", "clipassword", "--key=" + v, c.reqText}
			}
			add(c)
		}
		// unusual but legal user names and passwords on the command line
		for _, v := range []string{"@home", "@", "a@", "user@example.org", "ä€", "%s%d", "a b", "-"} {
			c := base("unusual user name " + strconv.Quote(v))
			c.user, c.pw = v, v+"pw"
			c.args = []string{"-host", "127.0.0.1", "-port", "{PORT}", "-user", v, "-password", v + "pw", "-key", "clikey"}
			ms := mkReq(c, 1, true)
			answers(c, ms)
			c.args = append(c.args, c.reqText)
			add(c)
		}
		// every spelling of the output option against a healthy device, split and unsplit
		for k, f := range []string{"json", "jsonsimple", "jsonmerged", "xml", "JSON", "Json", "json ", " json", " jsonmerged", "jsonsimple\t", "json\n", "jsonmerged ", " "} {
			for _, split := range []bool{false, true} {
				c := base("output option " + strconv.Quote(f))
				c.format, c.split = f, split
				ms := mkReq(c, 1+k%2, true)
				answers(c, ms)
				c.args = append(c.args, "-output", f)
				if split {
					c.args = append(c.args, "-splitrequests")
				}
				c.args = append(c.args, c.reqText)
				add(c)
			}
		}
		// every way a device refuses (or fails to grant) the authentication, and the two ways it grants it
		for k, a := range []rscp.Message{
			{Tag: rscp.RSCP_AUTHENTICATION, DataType: rscp.Error, Value: rscp.RscpError(2)}, {Tag: rscp.RSCP_AUTHENTICATION, DataType: rscp.Error, Value: rscp.RscpError(6)},
			{Tag: rscp.RSCP_AUTHENTICATION, DataType: rscp.UInt16, Value: uint16(10)}, {Tag: rscp.RSCP_AUTHENTICATION, DataType: rscp.CString, Value: "10"},
			{Tag: rscp.RSCP_AUTHENTICATION_USER, DataType: rscp.UChar8, Value: uint8(10)}, {Tag: rscp.RSCP_AUTHENTICATION, DataType: rscp.UChar8, Value: uint8(0)},
			{Tag: rscp.RSCP_AUTHENTICATION, DataType: rscp.Int32, Value: int32(0)}, {Tag: rscp.RSCP_AUTHENTICATION, DataType: rscp.Uint64, Value: uint64(1) << 40},
			{Tag: rscp.RSCP_AUTHENTICATION, DataType: rscp.Bool, Value: true}, {Tag: rscp.RSCP_AUTHENTICATION, DataType: rscp.None},
			{Tag: rscp.RSCP_AUTHENTICATION, DataType: rscp.Int32, Value: int32(10)}, {Tag: rscp.RSCP_AUTHENTICATION, DataType: rscp.UChar8, Value: uint8(255)}} {
			c := base(fmt.Sprintf("authentication reply form %d", k))
			c.split = k%2 == 1
			ms := mkReq(c, 1+k%2, true)
			answers(c, ms)
			c.auth = frameReply([]rscp.Message{a})
			c.mustFail = k < 10
			if c.split {
				c.args = append(c.args, "-splitrequests")
			}
			c.args = append(c.args, c.reqText)
			add(c)
		}
		// rich replies: the device answers one request frame with trees in which tags repeat as values and as containers,
		// at several depths; every output format has to come out as one document (or a clean failure)
		for i := 0; i < n/2+6; i++ {
			c := base("rich reply")
			c.format = formats[g.pick(3)]
			mkReq(c, 1+g.pick(2), true)
			tags := []rscp.Tag{g.respTags[g.pick(len(g.respTags))], g.respTags[g.pick(len(g.respTags))], rscp.BAT_DATA}
			var rs []rscp.Message
			for k := 0; k <= g.pick(5); k++ {
				rs = append(rs, g.response(2, tags, false))
			}
			c.replyMs = rs
			c.users = []replySpec{frameReply(rs)}
			c.args = append(c.args, "-output", c.format, c.reqText)
			add(c)
		}
		// string values that look like JSON escapes, HTML, or carry quotes / backslashes / control characters / non-ASCII
		// text: printed by the real binary they have to come back as the same string
		for k, str := range []string{`C:\users\u0026\e3dc`, `\u003c`, `a\\u003eb`, `&<>`, `\u0026amp;`, `"quoted"`, `back\slash\`, "tab\tnew\nline", "nul\x00byte", "é€😀", "\u2028\u2029", `{"json":"inside"}`, `]`, ``} {
			for _, f := range []string{"json", "jsonsimple", "jsonmerged"} {
				c := base("string value " + strconv.Quote(str))
				c.format, c.mustSucceed = f, true
				mkReq(c, 1, true)
				c.replyMs = []rscp.Message{{Tag: rscp.INFO_SERIAL_NUMBER, DataType: rscp.CString, Value: str},
					{Tag: rscp.BAT_DATA, DataType: rscp.Container, Value: []rscp.Message{{Tag: rscp.BAT_DEVICE_NAME, DataType: rscp.CString, Value: str}}}}
				c.users = []replySpec{frameReply(c.replyMs)}
				c.args = append(c.args, "-output", f, c.reqText)
				_ = k
				add(c)
			}
		}
		// byte arrays of length 0, 1 and 2 through the binary
		for _, bs := range [][]byte{{}, {0}, {255, 1}} {
			for _, f := range []string{"json", "jsonsimple", "jsonmerged"} {
				c := base(fmt.Sprintf("byte array of %d bytes", len(bs)))
				c.format, c.mustSucceed = f, true
				mkReq(c, 1, true)
				m := rscp.Message{Tag: rscp.WB_EXTERN_DATA, DataType: rscp.ByteArray, Value: bs}
				c.replyMs = []rscp.Message{m, {Tag: rscp.BAT_DATA, DataType: rscp.Container, Value: []rscp.Message{m}}}
				c.users = []replySpec{frameReply(c.replyMs)}
				c.args = append(c.args, "-output", f, c.reqText)
				add(c)
			}
		}
		// measurements that are "not a number" or infinite, at top level and nested, in every format: the run ends in one of
		// the two allowed ways (one JSON document and status 0, or a message and a non-zero status)
		for _, fv := range []float64{math.NaN(), math.Inf(1), math.Inf(-1)} {
			for _, f := range []string{"json", "jsonsimple", "jsonmerged"} {
				for _, nested := range []bool{false, true} {
					c := base(fmt.Sprintf("non-finite float %v nested=%v", fv, nested))
					c.format, c.anyOutcome = f, true
					mkReq(c, 2, true)
					m1 := rscp.Message{Tag: rscp.EMS_POWER_PV, DataType: rscp.Double64, Value: fv}
					m2 := rscp.Message{Tag: rscp.BAT_RSOC, DataType: rscp.Float32, Value: float32(fv)}
					c.replyMs = []rscp.Message{m1, m2}
					if nested {
						c.replyMs = []rscp.Message{{Tag: rscp.BAT_DATA, DataType: rscp.Container, Value: []rscp.Message{m1, m2}}, m2}
					}
					c.users = []replySpec{frameReply(c.replyMs)}
					c.args = append(c.args, "-output", f, c.reqText)
					add(c)
				}
			}
		}
		// the same tag twice on one level, for every data type (and a container), in every format
		for _, dt := range definedTypes {
			ts := g.byType[dt]
			t := rscp.Tag(0x7f800001)
			if len(ts) > 0 {
				t = ts[g.pick(len(ts))] | 1<<23
			}
			m1 := g.responseOfType(t, dt)
			m2 := g.responseOfType(t, dt)
			for _, f := range []string{"json", "jsonsimple", "jsonmerged"} {
				c := base(fmt.Sprintf("same tag twice dt=%d", dt))
				c.format, c.mustSucceed = f, true
				mkReq(c, 1, true)
				c.replyMs = []rscp.Message{m1, m2, {Tag: rscp.BAT_DATA, DataType: rscp.Container, Value: []rscp.Message{m2, m1}}}
				c.users = []replySpec{frameReply(c.replyMs)}
				c.args = append(c.args, "-output", f, c.reqText)
				add(c)
			}
		}
		// request texts with something behind the top-level value
		for _, txt := range []string{`["INFO_REQ_SERIAL_NUMBER"]]`, `["INFO_REQ_SERIAL_NUMBER"]}`, `["INFO_REQ_SERIAL_NUMBER"] ]`, `["INFO_REQ_SERIAL_NUMBER"][]`, `["INFO_REQ_SERIAL_NUMBER"],`,
			`["INFO_REQ_SERIAL_NUMBER"]}{`, `["INFO_REQ_SERIAL_NUMBER"] null`, `["INFO_REQ_SERIAL_NUMBER"]\u0000`} {
			c := base("trailing data after the request " + trunc(txt, 40))
			c.mustFail = true // not a request text: a diagnostic and a non-zero status, nothing sent
			c.reqText, c.reqJ = txt, nil
			c.users = []replySpec{frameReply([]rscp.Message{{Tag: rscp.INFO_SERIAL_NUMBER, DataType: rscp.CString, Value: "s"}})}
			c.args = append(c.args, txt)
			add(c)
		}
		// split run equals unsplit run against a device that answers every request with one message
		for i := 0; i < 6+n/10; i++ {
			var pair [2]*cliCase
			seed := g.r.Int63()
			for s := 0; s < 2; s++ {
				g2 := newGen(seed)
				c := base("split-vs-unsplit")
				c.split = s == 1
				save := g.r
				g.r = g2.r
				ms := mkReq(c, 2+g.pick(3), true)
				g.r = save
				answers(c, ms)
				if c.split {
					c.args = append(c.args, "-splitrequests")
				}
				c.args = append(c.args, c.reqText)
				pair[s] = c
				add(c)
			}
		}
		// malformed / empty request text, a silent device (one case: it takes the 3 s default timeout)
		for _, txt := range []string{"", "[", "nonsense", `{"Tag":"INFO_REQ_UTC_TIME"}`, `["NO_SUCH_TAG"]`, `[["INFO_SET_TIME","Timestamp",null]]`, `[["EMS_REQ_SET_POWER_MODE",300]]`, `[null]`, "[]"} {
			c := base("bad request text " + trunc(txt, 20))
			c.reqText = txt
			c.args = append(c.args, txt)
			switch txt {
			case "":
				c.flags, c.needsDev = "err", false
				c.args = c.args[:len(c.args)-1]
				c.args = append(c.args, "")
			case "[", "nonsense":
				c.reqJ = nil
			case `{"Tag":"INFO_REQ_UTC_TIME"}`:
				c.reqJ = jobj().set("Tag", jstr("INFO_REQ_UTC_TIME"))
			case `["NO_SUCH_TAG"]`:
				c.reqJ = jarr(jstr("NO_SUCH_TAG"))
			case `[["INFO_SET_TIME","Timestamp",null]]`:
				c.reqJ = jarr(jarr(jstr("INFO_SET_TIME"), jstr("Timestamp"), jnull()))
			case `[["EMS_REQ_SET_POWER_MODE",300]]`:
				c.reqJ = jarr(jarr(jstr("EMS_REQ_SET_POWER_MODE"), jnum("300")))
			case `[null]`:
				c.reqJ = jarr(jnull())
			case "[]":
				c.reqJ = jarr()
				c.users = []replySpec{frameReply([]rscp.Message{{Tag: 0x00800001, DataType: rscp.UChar8, Value: uint8(1)}})}
			}
			add(c)
		}
		{
			c := base("key longer than 32 bytes")
			c.key = strings.Repeat("k", 40)
			c.args = []string{"-host", "127.0.0.1", "-port", "{PORT}", "-user", "cliuser", "-password", "clipassword", "-key", c.key}
			ms := mkReq(c, 1, true)
			answers(c, ms)
			c.args = append(c.args, c.reqText)
			add(c)
			c = base("silent device")
			c.mustFail = true
			ms = mkReq(c, 1, true)
			c.users = []replySpec{{behaviour{kind: "silent"}, "X"}}
			_ = ms
			c.args = append(c.args, c.reqText)
			add(c)
			for _, where := range []string{"authentication", "request"} {
				for _, split := range []bool{false, true} {
					c = base("device answers the " + where + " with an empty frame")
					c.split, c.mustFail = split, true
					ms = mkReq(c, 2, true)
					answers(c, ms)
					if where == "authentication" {
						c.auth = replySpec{behaviour{kind: "empty"}, "F [ ]"}
					} else {
						c.users[len(c.users)-1] = replySpec{behaviour{kind: "empty"}, "F [ ]"}
					}
					if split {
						c.args = append(c.args, "-splitrequests")
					}
					c.args = append(c.args, c.reqText)
					add(c)
				}
			}
			c = base("connection refused")
			c.mustFail = true
			c.needsDev = false
			c.flags = "ok-nodial"
			ms = mkReq(c, 1, true)
			c.auth = replySpec{behaviour{}, "X"}
			c.args = []string{"-host", "127.0.0.1", "-port", "1", "-user", "cliuser", "-password", "clipassword", "-key", "clikey", c.reqText}
			add(c)
		}
		// run (in parallel, results in order)
		type res struct{ impl, prop string }
		results := make([]res, len(cases))
		var wg sync.WaitGroup
		sem := make(chan struct{}, 12)
		for i, c := range cases {
			wg.Add(1)
			sem <- struct{}{}
			go func(i int, c *cliCase) {
				defer wg.Done()
				defer func() { <-sem }()
				im, pr := cliExec(rundir, i, c)
				results[i] = res{im, pr}
			}(i, c)
		}
		wg.Wait()
		// split vs unsplit: same stdout
		for i := 0; i+1 < len(cases); i++ {
			if cases[i].label == "split-vs-unsplit" && cases[i+1].label == "split-vs-unsplit" && !cases[i].split && cases[i+1].split {
				a := strings.SplitN(results[i].impl, " stderr=", 2)[0]
				b := strings.SplitN(results[i+1].impl, " stderr=", 2)[0]
				if a != b && results[i+1].prop == "pass" {
					results[i+1].prop = "FAIL C15 -splitrequests changes the output: " + trunc(a, 100) + " vs " + trunc(b, 100)
				}
				// each top-level request in its own frame
				if results[i+1].prop == "pass" {
					want := 1 + len(cases[i+1].users)
					if !strings.Contains(results[i+1].impl, fmt.Sprintf(" frames=%d :", want)) {
						results[i+1].prop = fmt.Sprintf("FAIL C15 -splitrequests must send each of the %d requests in its own frame", want-1)
					}
				}
			}
		}
		for i, c := range cases {
			if c.anyOutcome {
				// judged by the process contract alone: in a case whose outcome depends on the environment only a trace,
				// a hang or output on the wrong stream is a failure
				pr := results[i].prop
				if strings.Contains(pr, "the exchange failed but") {
					pr = "pass"
				}
				cw.add("skip", "skip", "N cli "+c.label, pr)
				continue
			}
			cw.add(c.op(), results[i].impl, "N cli "+c.label, results[i].prop)
		}
	}
}

// stream clilog (C11, command line part): what the tool prints with -debug N must not contain the password,
// neither as text nor inside a dump of frame bytes
func init() {
	streams["clilog"] = func(g *gen, cw *caseWriter, n int, thorough bool) {
		rundir := filepath.Dir(os.Getenv("VERIF_E3DC"))
		levels := []int{0, 1, 4, 5, 6, 7, 42, 98}
		if thorough {
			levels = nil
			for l := 0; l <= 98; l++ {
				levels = append(levels, l)
			}
		}
		type job struct {
			level    int
			scenario string
			pw       string
			phrase   string
			impl     string
			prop     string
		}
		var jobs []*job
		for _, l := range levels {
			for _, sc := range []string{"ok", "refused", "garbled", "echo", "secret-request-fails split", "secret-request-fails", "secret-request-ok split",
				"usage no-request", "usage no-key", "usage no-request env", "secret-bytes-request-ok split", "secret-bytes-request-fails"} {
				jobs = append(jobs, &job{level: l, scenario: sc, pw: g.secret(), phrase: g.secret()})
			}
			// legal passwords of unusual shape: blanks at the ends, a leading '=' or '-', quotes
			for k, shape := range []string{" %s", "%s ", "\t%s", "=%s", "-%s", "\"%s\"", "%s\n"} {
				if (k+l)%3 == 0 || thorough {
					jobs = append(jobs, &job{level: l, scenario: "ok", pw: fmt.Sprintf(shape, g.secret()), phrase: g.secret()})
				}
			}
		}
		var wg sync.WaitGroup
		sem := make(chan struct{}, 12)
		for i, j := range jobs {
			wg.Add(1)
			sem <- struct{}{}
			go func(i int, j *job) {
				defer wg.Done()
				defer func() { <-sem }()
				c := &cliCase{label: "clilog", flags: "ok", user: "loguser", pw: j.pw, key: "logkey", needsDev: true}
				c.auth = frameReply([]rscp.Message{{Tag: rscp.RSCP_AUTHENTICATION, DataType: rscp.UChar8, Value: uint8(10)}})
				switch j.scenario {
				case "refused":
					c.auth = frameReply([]rscp.Message{{Tag: rscp.RSCP_AUTHENTICATION, DataType: rscp.Int32, Value: int32(0)}})
				case "garbled":
					c.auth = replySpec{behaviour{kind: "garbled", k: 0}, "P invalidMagic 0"}
				}
				c.users = []replySpec{frameReply([]rscp.Message{{Tag: rscp.INFO_SERIAL_NUMBER, DataType: rscp.CString, Value: "serial"}})}
				reqText := `["INFO_REQ_SERIAL_NUMBER"]`
				var extra []string
				switch {
				case j.scenario == "echo":
					c.auth = frameReply([]rscp.Message{{Tag: rscp.RSCP_REQ_AUTHENTICATION, DataType: rscp.Container, Value: []rscp.Message{
						{Tag: rscp.RSCP_AUTHENTICATION_USER, DataType: rscp.CString, Value: "loguser"},
						{Tag: rscp.RSCP_AUTHENTICATION_PASSWORD, DataType: rscp.CString, Value: j.pw}}}})
				case strings.HasPrefix(j.scenario, "secret-request"), strings.HasPrefix(j.scenario, "secret-bytes"):
					// requests that carry secrets (a pass phrase; a nested password item), not in first place; the device answers
					// the first request and then fails (or answers everything)
					q := func(s string) string { b, _ := json.Marshal(s); return string(b) }
					reqText = `["INFO_REQ_SERIAL_NUMBER", ["RSCP_REQ_SET_ENCRYPTION_PASSPHRASE", ` + q(j.phrase) + `], ["BAT_REQ_DATA", [["RSCP_AUTHENTICATION_PASSWORD", "CString", ` + q(j.phrase) + `]]]]`
					ok := frameReply([]rscp.Message{{Tag: rscp.INFO_SERIAL_NUMBER, DataType: rscp.CString, Value: "serial"}})
					bad := replySpec{behaviour{kind: "closeBefore"}, "X"}
					if strings.HasPrefix(j.scenario, "secret-bytes") {
						// the same secrets given as byte arrays (nothing ties the data type to the tag)
						var nums []string
						for _, b := range []byte(j.phrase) {
							nums = append(nums, strconv.Itoa(int(b)))
						}
						arr := "[" + strings.Join(nums, ",") + "]"
						reqText = `["INFO_REQ_SERIAL_NUMBER", ["RSCP_REQ_SET_ENCRYPTION_PASSPHRASE", "ByteArray", ` + arr + `], ["BAT_REQ_DATA", [["RSCP_AUTHENTICATION_PASSWORD", "ByteArray", ` + arr + `]]]]`
					}
					switch j.scenario {
					case "secret-request-fails split":
						c.users = []replySpec{ok, bad, bad}
						extra = []string{"-splitrequests"}
					case "secret-request-fails", "secret-bytes-request-fails":
						c.users = []replySpec{bad}
					default:
						c.users = []replySpec{ok, ok, ok}
						extra = []string{"-splitrequests"}
					}
				}
				pwArgs := [][]string{{"-password", j.pw}, {"--password", j.pw}, {"-password=" + j.pw}, {"--password=" + j.pw}}[i%4]
				if strings.HasPrefix(j.pw, "-") || strings.HasPrefix(j.pw, "=") {
					pwArgs = []string{"-password=" + j.pw}
				}
				c.args = append(append([]string{"-host", "127.0.0.1", "-port", "{PORT}", "-user", "loguser"}, pwArgs...), "-key", "logkey", "-debug", strconv.Itoa(j.level))
				c.args = append(c.args, extra...)
				c.args = append(c.args, reqText)
				var env []string
				switch j.scenario {
				case "usage no-request":
					// an error found after the options are read (nothing to send; standard input is empty): message and usage
					c.args = c.args[:len(c.args)-1]
				case "usage no-key":
					c.args = append(append([]string{"-host", "127.0.0.1", "-port", "{PORT}", "-user", "loguser"}, pwArgs...), "-debug", strconv.Itoa(j.level), reqText)
				case "usage no-request env":
					c.args = []string{"-host", "127.0.0.1", "-port", "{PORT}", "-user", "loguser", "-key", "logkey", "-debug", strconv.Itoa(j.level)}
					env = []string{"E3DC_PASSWORD=" + j.pw}
				}
				dir := filepath.Join(rundir, fmt.Sprintf("clilog-%d", i))
				os.MkdirAll(dir, 0o755)
				defer os.RemoveAll(dir)
				var ubs []behaviour
				for _, u := range c.users {
					ubs = append(ubs, u.beh)
				}
				dev, err := startDevice(c.key, c.auth.beh, ubs)
				if err != nil {
					j.impl, j.prop = "no-device", ""
					return
				}
				defer dev.stop()
				args := append([]string{}, c.args...)
				for k, a := range args {
					args[k] = strings.ReplaceAll(a, "{PORT}", strconv.Itoa(dev.port()))
				}
				r := runCLI(dir, args, "", env)
				j.prop = "pass"
				if how := containsSecret(r.stderr+r.stdout, j.pw); how != "" {
					j.prop = fmt.Sprintf("FAIL C11 with -debug %d the tool prints the password %s (scenario %s)", j.level, how, j.scenario)
					if strings.Contains(how, "RECEIVED") && j.scenario == "echo" {
						j.prop = fmt.Sprintf("FAIL C11 sig=password-reflected-by-peer a peer that echoes the authentication request gets the password into the trace dump of received bytes (-debug %d)", j.level)
					}
				} else if strings.HasPrefix(j.scenario, "secret-bytes") && containsByteForms(r.stderr+r.stdout, j.phrase) {
					j.prop = fmt.Sprintf("FAIL C11 with -debug %d the tool prints the bytes of a secret-tagged request item (scenario %s): %s", j.level, j.scenario, trunc(strings.ReplaceAll(r.stderr, "\n", " / "), 200))
				} else if containsAnyForm(r.stderr+r.stdout, j.phrase) {
					j.prop = fmt.Sprintf("FAIL C11 with -debug %d the tool prints the value of a secret-tagged request item as text (scenario %s): %s", j.level, j.scenario, trunc(strings.ReplaceAll(r.stderr, "\n", " / "), 200))
				}
				if strings.Contains(r.stderr, "panic:") {
					j.prop = "FAIL C11 the tool panics"
				}
			}(i, j)
		}
		wg.Wait()
		for _, j := range jobs {
			// judged by the Go-side oracle alone (the scan of what the process printed)
			cw.add("skip", "skip", fmt.Sprintf("N clilog level=%d %s", j.level, j.scenario), j.prop)
		}
	}
}

// containsByteForms: the secret as text, as contiguous hexadecimal digits, or as the decimal list fmt prints for a byte slice
func containsByteForms(text, secret string) bool {
	if containsAnyForm(text, secret) {
		return true
	}
	h := hex.EncodeToString([]byte(secret))
	if strings.Contains(strings.ToLower(text), h) {
		return true
	}
	var nums []string
	for _, b := range []byte(secret) {
		nums = append(nums, strconv.Itoa(int(b)))
	}
	return strings.Contains(text, strings.Join(nums, " ")) || strings.Contains(text, strings.Join(nums, ","))
}
