#!/bin/sh
# Build the framework from files on disk only (offline): translator, generated Lean sources,
# every Lean module (proofs, ties, audits, driver) and the harness.
set -e
cd "$(dirname "$0")"
export GOFLAGS=-mod=mod GOPROXY=off
unset GOSUMDB
mkdir -p .build evidence replays
(cd tools/rscp2lean && go build -o ../../.build/rscp2lean .)
.build/rscp2lean "${VERIF_REPO:-/repo}" lean/Rscp/Gen
(cd lean && lake build Rscp driver)
# every module a claimed check needs (so that the first check does not pay for the proofs)
MODS=$(python3 - <<'PY'
import sys, os
sys.path.insert(0, os.path.join(os.getcwd(), "checks"))
from props import PROPS
from claims import CLAIMS
mods = set()
for pid in CLAIMS:
    mods.update(PROPS[pid]["lean"])
    mods.add("Rscp.Audit." + pid)
print(" ".join(sorted(mods)))
PY
)
(cd lean && lake build $MODS)
cp "${VERIF_REPO:-/repo}/go.sum" harness/go.sum
python3 - <<'PY'
import json, os
root = os.getcwd()
repo = os.environ.get("VERIF_REPO", "/repo")
ov = {"Replace": {}}
for dst, src in [(os.path.join(repo, "rscp", "zz_verif_hook.go"), os.path.join(root, "harness", "overlay", "zz_verif_hook.go")),
                 (os.path.join(repo, "cmd", "e3dc", "zz_verif_main.go"), os.path.join(root, "harness", "overlay", "zz_verif_main.go")),
                 (os.path.join(repo, "cmd", "e3dc", "zz_verif_decode.go"), os.path.join(root, "harness", "overlay", "zz_verif_decode.go")),
                 (os.path.join(repo, "cmd", "e3dc", "zz_verif_wire.go"), os.path.join(root, "harness", "wire.go"))]:
    if os.path.exists(src):
        ov["Replace"][dst] = src
import re
present = any(re.search(r"^\s*(var\s+)?ErrRscpInvalidDataType\s*(error\s*)?=", open(os.path.join(repo, "rscp", f), errors="replace").read(), re.M)
              for f in os.listdir(os.path.join(repo, "rscp")) if f.endswith(".go") and not f.endswith("_test.go"))
ov["Replace"][os.path.join(repo, "rscp", "zz_verif_sentinel.go")] = os.path.join(
    root, "harness", "overlay", "zz_verif_sentinel_present.go" if present else "zz_verif_sentinel_absent.go")
try:
    has_flag = re.search(r"^\s*isAuthenticated\s+bool", open(os.path.join(repo, "rscp", "client.go"), errors="replace").read(), re.M)
except OSError:
    has_flag = None
ov["Replace"][os.path.join(repo, "rscp", "zz_verif_state.go")] = os.path.join(
    root, "harness", "overlay", "zz_verif_state_present.go" if has_flag else "zz_verif_state_absent.go")
json.dump(ov, open(os.path.join(root, ".build", "overlay.json"), "w"))
PY
(cd harness && go build -tags verif -overlay ../.build/overlay.json -o ../.build/verifharness .)
echo setup done
