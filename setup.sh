#!/bin/sh
# Build the framework from files on disk only (offline): translator, generated Lean sources,
# every Lean module (proofs, ties, audits, driver) and the harness.
set -e
cd "$(dirname "$0")"
export GOFLAGS=-mod=mod GOPROXY=off
unset GOSUMDB
mkdir -p .build evidence replays
(cd tools/rscp2lean && go build -o ../../.build/rscp2lean .)
.build/rscp2lean "${VERIF_REPO:-/repo}" lean/Rscp/Gen
(cd lean && lake build Rscp driver)
cp "${VERIF_REPO:-/repo}/go.sum" harness/go.sum
python3 - <<'PY'
import json, os
root = os.getcwd()
repo = os.environ.get("VERIF_REPO", "/repo")
ov = {"Replace": {}}
for dst, src in [(os.path.join(repo, "rscp", "zz_verif_hook.go"), os.path.join(root, "harness", "overlay", "zz_verif_hook.go")),
                 (os.path.join(repo, "cmd", "e3dc", "zz_verif_main.go"), os.path.join(root, "harness", "overlay", "zz_verif_main.go"))]:
    if os.path.exists(src):
        ov["Replace"][dst] = src
json.dump(ov, open(os.path.join(root, ".build", "overlay.json"), "w"))
PY
(cd harness && go build -tags verif -overlay ../.build/overlay.json -o ../.build/verifharness .)
echo setup done
